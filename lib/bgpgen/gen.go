// Package bgpgen holds the deterministic, exhaustive-by-construction generators of BGP wire objects
// shared by the codec checks (C04, C05, C06, C11, C18).
//
// Every generator builds its values with the bgp package's own constructors (or, where the package
// has no constructor, with the struct literals that pkg/apiutil and cmd/gobgp use), draws every field
// from a small boundary domain, and returns the items simplest first. A call returns FRESH values:
// gobgp's Serialize methods update cached length fields inside the objects, so consumers that need
// pristine objects call the generator again instead of reusing a slice.
//
// No testing imports, no randomness, no global state.
package bgpgen

import (
	"net/netip"

	"github.com/osrg/gobgp/v4/pkg/packet/bgp"
)

// Tier selects the size of the combination spaces (single values are the same in both tiers).
type Tier int

const (
	Quick Tier = iota
	Thorough
)

// AS width an item needs from the session options (AS_PATH / AGGREGATOR encodings depend on it).
const (
	ASAny = iota // independent of Use2ByteAS
	AS4          // only valid when Use2ByteAS is false
	AS2          // only valid when Use2ByteAS is true
)

// Cap is one named capability.
type Cap struct {
	Name string
	Cap  bgp.ParameterCapabilityInterface
}

// Attr is one named path attribute.
type Attr struct {
	Name  string
	Kind  string // attribute kind: one Kind = one decoder path (e.g. "extcomm/color"); Rep marks its simplest member
	Rep   bool
	AS    int        // ASAny / AS4 / AS2
	Fam   bgp.Family // for MP_REACH / MP_UNREACH: the family carried (0 otherwise)
	HasID bool       // carries a non-zero ADD-PATH identifier (lost, by design, when ADD-PATH is off for Fam)
	Attr  bgp.PathAttributeInterface
}

// NLRI is one named NLRI of one family.
type NLRI struct {
	Name   string
	Family bgp.Family
	NLRI   bgp.NLRI
}

// Msg is one named BGP message.
type Msg struct {
	Name string
	Kind string // "open", "update", "notification", "keepalive", "route-refresh"
	Seed bool   // member of the small seed catalogue used for mutation (C05/C06)
	AS   int    // ASAny / AS4 / AS2
	Ext  bool   // needs ExtendedMessage (body larger than 4096-19)
	Msg  *bgp.BGPMessage
}

// OptSet is one named marshalling-option combination.
type OptSet struct {
	Name       string
	AddPathV4  bool // ADD-PATH (send+receive) for ipv4-unicast, i.e. for the classic NLRI/withdrawn fields
	AddPathMP  bool // ADD-PATH (send+receive) for every other family
	Use2ByteAS bool
	Extended   bool
	Opts       []*bgp.MarshallingOption
	// The same session seen from one end only: Enc has ADD-PATH in mode SEND (what the encoder of a speaker
	// that only sends path identifiers is given), Dec in mode RECEIVE (the decoder at the other end). Bytes
	// written under Enc must be the bytes written under Opts and must parse under Dec; a codec function that
	// asks for the wrong direction shows here and nowhere else (both nil without ADD-PATH).
	Enc, Dec []*bgp.MarshallingOption
}

// Compatible reports whether an item with AS requirement `as` (and extended-message need) may be
// exchanged on a session with these options.
func (o OptSet) Compatible(as int, ext bool) bool {
	if as == AS4 && o.Use2ByteAS || as == AS2 && !o.Use2ByteAS {
		return false
	}
	if ext && !o.Extended {
		return false
	}
	return true
}

// AddPath reports whether ADD-PATH is on for the family under this option set.
func (o OptSet) AddPath(f bgp.Family) bool {
	if f == bgp.RF_IPv4_UC {
		return o.AddPathV4
	}
	return o.AddPathMP
}

// Families lists every address family the bgp package supports (26), core families first.
func Families() []bgp.Family {
	return []bgp.Family{
		bgp.RF_IPv4_UC, bgp.RF_IPv6_UC, bgp.RF_IPv4_MC, bgp.RF_IPv6_MC,
		bgp.RF_IPv4_MPLS, bgp.RF_IPv6_MPLS, bgp.RF_IPv4_VPN, bgp.RF_IPv6_VPN,
		bgp.RF_IPv4_VPN_MC, bgp.RF_IPv6_VPN_MC,
		bgp.RF_VPLS, bgp.RF_EVPN, bgp.RF_RTC_UC, bgp.RF_IPv4_ENCAP, bgp.RF_IPv6_ENCAP,
		bgp.RF_FS_IPv4_UC, bgp.RF_FS_IPv4_VPN, bgp.RF_FS_IPv6_UC, bgp.RF_FS_IPv6_VPN, bgp.RF_FS_L2_VPN,
		bgp.RF_OPAQUE, bgp.RF_LS, bgp.RF_SR_POLICY_IPv4, bgp.RF_SR_POLICY_IPv6,
		bgp.RF_MUP_IPv4, bgp.RF_MUP_IPv6,
	}
}

// CoreFamilies: IPv4/IPv6 unicast, multicast, labelled, VPN (unicast and multicast).
func CoreFamilies() []bgp.Family { return Families()[:10] }

// MarshallingOptionSets: {ADD-PATH off, ipv4-unicast only, every family except ipv4-unicast, all}
// x {4-octet AS, 2-octet AS} x {standard, extended message} = 16 sets, simplest first.
// ADD-PATH is enabled in both directions so that one option set describes encoder and decoder.
func MarshallingOptionSets() []OptSet {
	var out []OptSet
	for _, ext := range []bool{false, true} {
		for _, as2 := range []bool{false, true} {
			for ap := 0; ap < 4; ap++ {
				o := OptSet{AddPathV4: ap&1 != 0, AddPathMP: ap&2 != 0, Use2ByteAS: as2, Extended: ext}
				m := &bgp.MarshallingOption{Use2ByteAS: as2, ExtendedMessage: ext}
				if ap != 0 {
					m.AddPath = map[bgp.Family]bgp.BGPAddPathMode{}
					for _, f := range Families() {
						if o.AddPath(f) {
							m.AddPath[f] = bgp.BGP_ADD_PATH_BOTH
						}
					}
				}
				if ap != 0 {
					e := &bgp.MarshallingOption{Use2ByteAS: as2, ExtendedMessage: ext, AddPath: map[bgp.Family]bgp.BGPAddPathMode{}}
					d := &bgp.MarshallingOption{Use2ByteAS: as2, ExtendedMessage: ext, AddPath: map[bgp.Family]bgp.BGPAddPathMode{}}
					for f := range m.AddPath {
						e.AddPath[f] = bgp.BGP_ADD_PATH_SEND
						d.AddPath[f] = bgp.BGP_ADD_PATH_RECEIVE
					}
					o.Enc, o.Dec = []*bgp.MarshallingOption{e}, []*bgp.MarshallingOption{d}
				}
				o.Name = []string{"noaddpath", "addpath-v4uc", "addpath-mp", "addpath-all"}[ap]
				if as2 {
					o.Name += "+as2"
				} else {
					o.Name += "+as4"
				}
				if ext {
					o.Name += "+ext"
				}
				o.Opts = []*bgp.MarshallingOption{m}
				out = append(out, o)
			}
		}
	}
	return out
}

// ---- small boundary domains ----

func a(s string) netip.Addr   { return netip.MustParseAddr(s) }
func p(s string) netip.Prefix { return netip.MustParsePrefix(s) }

var (
	u8s      = []uint8{0, 1, 0x7f, 0x80, 0xfe, 0xff}
	u16s     = []uint16{0, 1, 0xfffe, 0xffff}
	u32s     = []uint32{0, 1, 0xfffffffe, 0xffffffff}
	u24s     = []uint32{0, 1, 0xfffffe, 0xffffff}
	labels20 = []uint32{0, 1, 16, 0xffffe, 0xfffff}
	pathIDs  = []uint32{0, 1, 0xffffffff}
)

func v4Prefixes() []netip.Prefix {
	return []netip.Prefix{p("10.1.2.0/24"), p("0.0.0.0/0"), p("128.0.0.0/1"), p("10.0.0.0/8"), p("10.1.2.128/25"),
		p("10.1.2.2/31"), p("255.255.255.255/32"), p("0.0.0.0/32")}
}

func v6Prefixes() []netip.Prefix {
	return []netip.Prefix{p("2001:db8:1::/64"), p("::/0"), p("8000::/1"), p("2001:db8:1:0:8000::/65"),
		p("2001:db8::2/127"), p("ffff:ffff:ffff:ffff:ffff:ffff:ffff:ffff/128"), p("::/128")}
}

func v4Addrs() []netip.Addr { return []netip.Addr{a("192.0.2.1"), a("0.0.0.0"), a("255.255.255.255")} }
func v6Addrs() []netip.Addr {
	return []netip.Addr{a("2001:db8::1"), a("::"), a("ffff:ffff:ffff:ffff:ffff:ffff:ffff:ffff")}
}

func bytesN(n int, fill byte) []byte {
	b := make([]byte, n)
	for i := range b {
		b[i] = fill + byte(i)
	}
	return b
}

// RDs returns the route-distinguisher domain (fresh values).
func RDs() []bgp.RouteDistinguisherInterface {
	ip, _ := bgp.NewRouteDistinguisherIPAddressAS(a("192.0.2.1"), 65535)
	ip0, _ := bgp.NewRouteDistinguisherIPAddressAS(a("0.0.0.0"), 0)
	return []bgp.RouteDistinguisherInterface{
		bgp.NewRouteDistinguisherTwoOctetAS(65000, 100),
		bgp.NewRouteDistinguisherTwoOctetAS(0, 0),
		bgp.NewRouteDistinguisherTwoOctetAS(0xffff, 0xffffffff),
		ip, ip0,
		bgp.NewRouteDistinguisherFourOctetAS(0xffffffff, 0xffff),
		bgp.NewRouteDistinguisherFourOctetAS(65536, 1),
	}
}

func rd0() bgp.RouteDistinguisherInterface { return bgp.NewRouteDistinguisherTwoOctetAS(65000, 100) }

// LabelStacks returns the MPLS label-stack domain: depth 1..3, boundary label values, and the
// RFC 3107 withdraw label.
func LabelStacks() []bgp.MPLSLabelStack {
	return []bgp.MPLSLabelStack{
		*bgp.NewMPLSLabelStack(16),
		*bgp.NewMPLSLabelStack(), // [0]
		*bgp.NewMPLSLabelStack(1),
		*bgp.NewMPLSLabelStack(0xfffff),
		*bgp.NewMPLSLabelStack(16, 17),
		*bgp.NewMPLSLabelStack(0xfffff, 0xffffe, 1),
		*bgp.NewMPLSLabelStack(3, 0),        // explicit-null at the bottom
		*bgp.NewMPLSLabelStack(0, 16),       // explicit-null on top (RFC 4182)
		*bgp.NewMPLSLabelStack(0x80000, 16), // 0x80000<<4 == 0x800000, the wire form of the withdraw label
		*bgp.NewMPLSLabelStack(16, 0, 17),   // explicit-null between two labels
		*bgp.NewMPLSLabelStack(bgp.WITHDRAW_LABEL),
	}
}
