package server

// C07 — peering sessions follow the RFC 4271 state machine, timers included.
// Scenario "fsm": one passive peer, a bot that can open connections and send any message of the
// alphabet, management operations, and virtual-time waits that land exactly on / just before the
// reference machine's next timer deadline. The reference machine (RFC 4271 section 8 restricted to the
// alphabet, Connect merged into Active, no DelayOpen; RFC 6608 FSM-error subcodes; RFC 4486 Cease
// subcodes) predicts, for every event: the messages the daemon emits (type, NOTIFICATION
// code/subcode, instant), whether the connection is closed, and the next state.

import (
	"context"
	"encoding/binary"
	"fmt"
	"net/netip"
	"strings"
	"testing"
	"time"

	api "github.com/osrg/gobgp/v4/api"
	"github.com/osrg/gobgp/v4/internal/verif/vr"
	"github.com/osrg/gobgp/v4/pkg/config/oc"
	"github.com/osrg/gobgp/v4/pkg/packet/bgp"
)

const (
	c07Hold      = 9
	c07KA        = 4
	c07IdleHold  = 5   // holdtimeIdle in fsm.go (implementation-defined by the RFC)
	c07ResetHold = 7   // idle-hold-time-after-reset configured below
	c07OpenSent  = 240 // "large value" of RFC 4271 (4 minutes suggested)
)

type c07Model struct {
	St        string // idle active opensent openconfirm established
	AdminDown bool
	AdminPfx  bool // administratively stopped by the prefix limit (Cease 6/1): stays Idle until enabled
	Routes2   bool // the second prefix is in the Adj-RIB-In
	Deleted   bool
	Conn      bool          // the FSM holds the bot's current connection
	Idle      time.Duration // remaining idle-hold time (St==idle, admin up)
	Hold      time.Duration // remaining hold time (0 = not running)
	KA        time.Duration // remaining time to the next keepalive (0 = not running)
	NegHold   time.Duration
	Routes    int // routes the model expects in the Adj-RIB-In
	Desync    string
	// a NOTIFICATION queued by ShutdownPeer/ResetPeer outside Established must have no effect
}

type c07Expect struct {
	msgs   []string // e.g. "OPEN", "KEEPALIVE", "NOTIF 6/2"
	closed bool     // the daemon closes the connection
}

type c07Scenario struct {
	m               c07Model
	lastSeq         int
	exp             c07Expect
	ribBefore       string
	pruned          bool
	treatAsWithdraw bool
	// harness-side clocks (virtual time of the bot's last messages on the current connection):
	// part of the state key, because they determine the daemon's timers independently of the
	// reference machine's own reset rules (a key built only from the model's timers merges states
	// that a wrong reset rule in the daemon would tell apart)
	tConn, tLastKA, tLastUpd time.Duration
}

func init() {
	simScenarios["fsm"] = func(arg string) simScenario { return &c07Scenario{treatAsWithdraw: strings.Contains(arg, "taw")} }
}

func (sc *c07Scenario) ForceDrain() bool { return true }

func (sc *c07Scenario) Setup(w *simWorld) {
	w.start()
	w.addBot(simBotSpec{Name: "p", IP: [4]byte{10, 0, 0, 1}, AS: 65001, RouterID: [4]byte{1, 1, 1, 1}, HoldTime: c07Hold,
		Neighbor: func(n *oc.Neighbor) {
			n.Timers.Config.HoldTime = c07Hold
			n.Timers.Config.KeepaliveInterval = c07KA
			n.Timers.Config.IdleHoldTimeAfterReset = c07ResetHold
			for i := range n.AfiSafis {
				n.AfiSafis[i].PrefixLimit.Config.MaxPrefixes = 1
			}
		},
		// AddPeer forces treat-as-withdraw on; only a configuration file can switch it off
		FileOnly: func(n *oc.Neighbor) { n.ErrorHandling.Config.TreatAsWithdraw = sc.treatAsWithdraw }})
	w.advance(time.Second) // initial idle-hold time is zero: Idle -> Active
	sc.m = c07Model{St: "active"}
}

func (sc *c07Scenario) Enabled(w *simWorld) []simEvent {
	if sc.pruned || sc.m.Deleted {
		return nil
	}
	b := w.bots[0]
	var ev []simEvent
	add := func(op string) { ev = append(ev, simEvent{Op: op}) }
	if b.connected() {
		ops := []string{"ka", "upd", "upd2", "upd-bad", "notif", "hdr-marker", "hdr-len", "hdr-type", "close"}
		if sc.m.St == "opensent" || !sc.m.Conn {
			// a second OPEN on a connection (OpenConfirm, Established) is not an event the RFC
			// lists for those states without the optional collision-detect attribute: not claimed
			ops = append([]string{"open", "open-badver", "open-badas", "open-badid", "open-hold1", "open-hold0"}, ops...)
		}
		if sc.m.St == "established" || sc.m.St == "opensent" {
			ops = append(ops, "rr") // RFC 2918 does not define ROUTE-REFRESH handling in OpenConfirm
		}
		for _, op := range ops {
			add(op)
		}
	}
	add("conn")
	add("wait1")
	add("wait6")
	if sc.nextDeadline() > 0 {
		add("waitnext")
	}
	if sc.m.AdminDown || sc.m.AdminPfx {
		add("enable")
	}
	if !sc.m.AdminDown {
		add("disable")
	}
	add("shutdown")
	add("reset")
	add("delete")
	return ev
}

func (sc *c07Scenario) nextDeadline() time.Duration {
	var d time.Duration
	for _, x := range []time.Duration{sc.m.Idle, sc.m.Hold, sc.m.KA} {
		if x > 0 && (d == 0 || x < d) {
			d = x
		}
	}
	return d
}

func c07Hdr(marker byte, length uint16, typ uint8, body []byte) []byte {
	b := make([]byte, 19)
	for i := 0; i < 16; i++ {
		b[i] = marker
	}
	binary.BigEndian.PutUint16(b[16:18], length)
	b[18] = typ
	return append(b, body...)
}

func (sc *c07Scenario) open(b *simBot, mod string) []byte {
	spec := b.spec
	as, id, hold, ver := uint16(spec.AS), netip.AddrFrom4(spec.RouterID), uint16(c07Hold), uint8(4)
	switch mod {
	case "open-badver":
		ver = 3
	case "open-badas":
		as = 65099
		spec.AS = 65099
	case "open-badid":
		id = netip.MustParseAddr("0.0.0.0")
	case "open-hold1":
		hold = 1
	case "open-hold0":
		hold = 0
	}
	bb := *b
	bb.spec = spec
	m, _ := bgp.NewBGPOpenMessage(as, hold, netip.MustParseAddr("1.1.1.1"), []bgp.OptionParameterInterface{bgp.NewOptionParameterCapability(bb.caps())})
	o := m.Body.(*bgp.BGPOpen)
	o.Version = ver
	o.ID = id
	buf, err := m.Serialize()
	if err != nil {
		panic(err)
	}
	return buf
}

// toIdle: the reference machine releases all resources and enters Idle.
func (m *c07Model) toIdle(idle time.Duration) {
	m.St = "idle"
	m.Conn = false
	m.Hold, m.KA = 0, 0
	m.Routes = 0
	m.Routes2 = false
	m.Idle = idle
	if m.AdminDown || m.AdminPfx {
		m.Idle = 0
	}
}

func (sc *c07Scenario) Apply(w *simWorld, e simEvent) {
	b := w.bots[0]
	m := &sc.m
	sc.exp = c07Expect{}
	sc.lastSeq = len(b.rxAll())
	sc.ribBefore = fmt.Sprint(w.ribDump(w.s.globalRib))
	exp := &sc.exp
	fail := func(notif string) { // session error: NOTIFICATION (if any), close, Idle
		if notif != "" {
			exp.msgs = append(exp.msgs, notif)
		}
		exp.closed = true
		m.toIdle(c07IdleHold * time.Second)
	}
	hasSession := m.Conn && (m.St == "opensent" || m.St == "openconfirm" || m.St == "established")
	switch e.Op {
	case "conn":
		sc.tConn, sc.tLastKA, sc.tLastUpd = w.now(), -1, -1
		b.connect()
		sc.lastSeq = 0
		switch {
		case m.AdminDown || m.St == "idle":
			// connections are refused while Idle
			exp.closed = true
			if hasSession {
				panic("model: idle with session")
			}
		case m.St == "active":
			// the bot abandoned its previous connection, if any (none is held in Active)
			exp.msgs = append(exp.msgs, "OPEN")
			m.St, m.Conn = "opensent", true
			m.Hold = c07OpenSent * time.Second
		default:
			// a second connection while one is being used: the old one was closed by the bot
			// (remote close => Idle), the new one is refused or tracked for collision; the
			// alphabet has no parallel connections, so the reference treats it as remote close
			// followed by a refused connection.
			exp.closed = true
			m.toIdle(c07IdleHold * time.Second)
		}
	case "open", "open-badver", "open-badas", "open-badid", "open-hold1", "open-hold0":
		b.send(sc.open(b, e.Op))
		if !hasSession {
			break
		}
		switch m.St {
		case "opensent":
			switch e.Op {
			case "open", "open-hold0":
				exp.msgs = append(exp.msgs, "KEEPALIVE")
				m.St = "openconfirm"
				m.NegHold = c07Hold * time.Second
				if e.Op == "open-hold0" {
					m.NegHold = 0
				}
				m.Hold = m.NegHold
				m.KA = 0
				if m.NegHold > 0 {
					m.KA = c07KA * time.Second
				}
			case "open-badver":
				fail("NOTIF 2/1")
			case "open-badas":
				fail("NOTIF 2/2")
			case "open-badid":
				fail("NOTIF 2/3")
			case "open-hold1":
				fail("NOTIF 2/6")
			}
		case "openconfirm":
			fail("NOTIF 5/2")
		case "established":
			fail("NOTIF 5/3")
		}
	case "ka":
		sc.tLastKA = w.now()
		b.sendMsg(bgp.NewBGPKeepAliveMessage())
		if !hasSession {
			break
		}
		switch m.St {
		case "opensent":
			fail("NOTIF 5/1")
		case "openconfirm":
			m.St = "established"
			m.Hold = m.NegHold
			m.KA = 0
			if m.NegHold > 0 {
				m.KA = c07KA * time.Second
			}
		case "established":
			m.Hold = m.NegHold
		}
	case "upd2":
		sc.tLastUpd = w.now()
		// a second prefix: with max-prefixes 1 the limit is overrun once both prefixes are held
		nlri, _ := bgp.NewIPAddrPrefix(netip.MustParsePrefix("10.10.2.0/24"))
		nh, _ := bgp.NewPathAttributeNextHop(netip.MustParseAddr("10.0.0.1"))
		attrs := []bgp.PathAttributeInterface{bgp.NewPathAttributeOrigin(0),
			bgp.NewPathAttributeAsPath([]bgp.AsPathParamInterface{bgp.NewAs4PathParam(bgp.BGP_ASPATH_ATTR_TYPE_SEQ, []uint32{65001})}), nh}
		b.sendMsg(bgp.NewBGPUpdateMessage(nil, attrs, []bgp.PathNLRI{{NLRI: nlri}}))
		if !hasSession {
			break
		}
		switch m.St {
		case "opensent":
			fail("NOTIF 5/1")
		case "openconfirm":
			fail("NOTIF 5/2")
		case "established":
			if m.Routes == 1 {
				// RFC 4486: Cease / Maximum Number of Prefixes Reached; the peer stays down until
				// it is administratively enabled again
				m.AdminPfx = true
				fail("NOTIF 6/1")
			} else {
				m.Hold = m.NegHold
				m.Routes2 = true
			}
		}
	case "upd", "upd-bad":
		sc.tLastUpd = w.now()
		nlri, _ := bgp.NewIPAddrPrefix(netip.MustParsePrefix("10.10.1.0/24"))
		nh, _ := bgp.NewPathAttributeNextHop(netip.MustParseAddr("10.0.0.1"))
		attrs := []bgp.PathAttributeInterface{bgp.NewPathAttributeOrigin(0),
			bgp.NewPathAttributeAsPath([]bgp.AsPathParamInterface{bgp.NewAs4PathParam(bgp.BGP_ASPATH_ATTR_TYPE_SEQ, []uint32{65001})}), nh}
		if e.Op == "upd-bad" {
			attrs = attrs[1:] // ORIGIN missing: UPDATE message error 3/3
		}
		b.sendMsg(bgp.NewBGPUpdateMessage(nil, attrs, []bgp.PathNLRI{{NLRI: nlri}}))
		if !hasSession {
			break
		}
		switch m.St {
		case "opensent":
			fail("NOTIF 5/1")
		case "openconfirm":
			fail("NOTIF 5/2")
		case "established":
			if e.Op == "upd" && m.Routes2 {
				m.AdminPfx = true
				fail("NOTIF 6/1")
			} else if e.Op == "upd" {
				m.Hold = m.NegHold
				m.Routes = 1
			} else if sc.treatAsWithdraw {
				m.Hold = m.NegHold
				m.Routes = 0
			} else {
				fail("NOTIF 3/3")
			}
		}
	case "rr":
		b.sendMsg(bgp.NewBGPRouteRefreshMessage(1, 0, 1))
		if !hasSession {
			break
		}
		switch m.St {
		case "opensent":
			fail("NOTIF 5/1")
		case "openconfirm":
			fail("NOTIF 5/2")
		}
	case "notif":
		b.sendMsg(bgp.NewBGPNotificationMessage(bgp.BGP_ERROR_CEASE, bgp.BGP_ERROR_SUB_OTHER_CONFIGURATION_CHANGE, nil))
		if hasSession {
			if m.St == "opensent" {
				// RFC 4271 8.2.2 OpenSent: NotifMsg (Event 25) is one of the "any other event"s
				fail("NOTIF 5/1")
			} else {
				fail("")
			}
		}
	case "hdr-marker":
		b.send(c07Hdr(0x00, 19, bgp.BGP_MSG_KEEPALIVE, nil))
		if hasSession {
			fail("NOTIF 1/1")
		}
	case "hdr-len":
		b.send(c07Hdr(0xff, 18, bgp.BGP_MSG_KEEPALIVE, nil))
		if hasSession {
			fail("NOTIF 1/2")
		}
	case "hdr-type":
		b.send(c07Hdr(0xff, 19, 9, nil))
		if hasSession {
			fail("NOTIF 1/3")
		}
	case "close":
		b.disconnect()
		if hasSession {
			m.toIdle(c07IdleHold * time.Second)
		}
	case "wait1", "wait6", "waitnext":
		d := time.Second
		if e.Op == "wait6" {
			d = 6 * time.Second
		}
		if e.Op == "waitnext" {
			d = sc.nextDeadline()
		}
		w.settle()
		sc.elapse(d)
		time.Sleep(d)
	case "disable":
		w.must(w.s.DisablePeer(context.Background(), &api.DisablePeerRequest{Address: b.addr().String()}))
		m.AdminDown = true
		m.AdminPfx = false
		switch m.St {
		case "established":
			exp.msgs = append(exp.msgs, "NOTIF 6/2")
			exp.closed = true
		case "opensent", "openconfirm":
			exp.msgs = append(exp.msgs, "NOTIF 6/2") // RFC 4271 8.2.2: ManualStop => NOTIFICATION with Cease
			exp.closed = true
		}
		m.toIdle(0)
	case "enable":
		w.must(w.s.EnablePeer(context.Background(), &api.EnablePeerRequest{Address: b.addr().String()}))
		m.AdminDown = false
		m.AdminPfx = false
		m.Idle = c07IdleHold * time.Second
		if m.St != "idle" {
			panic("model: admin down outside idle")
		}
	case "shutdown":
		w.must(w.s.ShutdownPeer(context.Background(), &api.ShutdownPeerRequest{Address: b.addr().String()}))
		if m.St == "established" {
			exp.msgs = append(exp.msgs, "NOTIF 6/2")
			exp.closed = true
			m.toIdle(c07IdleHold * time.Second)
		}
	case "reset":
		w.must(w.s.ResetPeer(context.Background(), &api.ResetPeerRequest{Address: b.addr().String()}))
		if m.St == "established" {
			exp.msgs = append(exp.msgs, "NOTIF 6/4")
			exp.closed = true
			m.toIdle(c07ResetHold * time.Second)
		}
	case "delete":
		w.must(w.s.DeletePeer(context.Background(), &api.DeletePeerRequest{Address: b.addr().String()}))
		if m.St == "established" {
			exp.msgs = append(exp.msgs, "NOTIF 6/3")
		}
		if hasSession {
			exp.closed = true
		}
		m.toIdle(0)
		m.Deleted = true
	default:
		panic("unknown event " + e.Op)
	}
	w.settle()
}

// elapse advances the reference machine's timers by d (d never jumps over a deadline by more than
// the deadline itself: waitnext lands exactly on it, wait1 is one second).
func (sc *c07Scenario) elapse(d time.Duration) {
	m := &sc.m
	exp := &sc.exp
	for d > 0 {
		step := d
		if n := sc.nextDeadline(); n > 0 && n < step {
			step = n
		}
		d -= step
		dec := func(x *time.Duration) bool {
			if *x == 0 {
				return false
			}
			*x -= step
			return *x == 0
		}
		idleFired := dec(&m.Idle)
		holdFired := dec(&m.Hold)
		kaFired := dec(&m.KA)
		if idleFired && m.St == "idle" && !m.AdminDown && !m.AdminPfx && !m.Deleted {
			m.St = "active"
		}
		// the alphabet keeps keepalive ticks and hold expiry apart (4 s vs 9 s), except that
		// 4+4 < 9 < 4+4+4; when both land on one instant the hold timer wins
		if holdFired {
			exp.msgs = append(exp.msgs, "NOTIF 4/0")
			exp.closed = true
			m.toIdle(c07IdleHold * time.Second)
			continue
		}
		if kaFired {
			exp.msgs = append(exp.msgs, "KEEPALIVE")
			m.KA = c07KA * time.Second
		}
	}
}

func c07MsgName(rx simRx) string {
	switch rx.Type {
	case bgp.BGP_MSG_OPEN:
		return "OPEN"
	case bgp.BGP_MSG_KEEPALIVE:
		return "KEEPALIVE"
	case bgp.BGP_MSG_UPDATE:
		return "UPDATE"
	case bgp.BGP_MSG_ROUTE_REFRESH:
		return "ROUTE-REFRESH"
	case bgp.BGP_MSG_NOTIFICATION:
		if rx.Msg != nil {
			n := rx.Msg.Body.(*bgp.BGPNotification)
			return fmt.Sprintf("NOTIF %d/%d", n.ErrorCode, n.ErrorSubcode)
		}
		return "NOTIF ?"
	}
	return fmt.Sprintf("TYPE%d", rx.Type)
}

var c07StateName = map[bgp.FSMState]string{bgp.BGP_FSM_IDLE: "idle", bgp.BGP_FSM_ACTIVE: "active", bgp.BGP_FSM_OPENSENT: "opensent",
	bgp.BGP_FSM_OPENCONFIRM: "openconfirm", bgp.BGP_FSM_ESTABLISHED: "established"}

func (sc *c07Scenario) Check(w *simWorld, last *simEvent) {
	if last == nil {
		return
	}
	b := w.bots[0]
	m := &sc.m
	p := w.peer(b)
	ev := last.Op
	before := "?"
	_ = before
	// 1. messages emitted on this transition
	all := b.rxAll()
	var got []string
	if sc.lastSeq <= len(all) {
		for _, rx := range all[sc.lastSeq:] {
			got = append(got, c07MsgName(rx))
		}
	}
	w.stat("ev-" + ev)
	if fmt.Sprint(got) != fmt.Sprint(sc.exp.msgs) {
		w.violate(fmt.Sprintf("C07:messages:%s:want=%v:got=%v", ev, sc.exp.msgs, got),
			"event %s: the reference machine (now %s) expects the daemon to emit %v, it emitted %v", ev, m.St, sc.exp.msgs, got)
	}
	// 2. connection closed or kept
	if sc.exp.closed && b.connected() {
		w.violate("C07:connection-kept:"+ev, "event %s: the reference machine closes the connection, the daemon kept it open (model state %s)", ev, m.St)
		sc.pruned = true
	}
	if !sc.exp.closed && m.Conn && !b.connected() {
		w.violate("C07:connection-closed:"+ev, "event %s: the daemon closed the connection, the reference machine keeps it (model state %s)", ev, m.St)
		sc.pruned = true
	}
	// 3. state
	if m.Deleted {
		if p != nil {
			w.violate("C07:deleted-peer-still-present", "peer still configured after DeletePeer")
		}
		return
	}
	if p == nil {
		w.violate("C07:peer-vanished", "peer vanished")
		sc.pruned = true
		return
	}
	real := c07StateName[p.State()]
	if real != m.St {
		w.violate(fmt.Sprintf("C07:state:%s:want=%s:got=%s", ev, m.St, real), "event %s: reference machine is in %s, the daemon in %s", ev, m.St, real)
		sc.pruned = true
	}
	if real == "established" {
		w.stat("reached-established")
	}
	// 4. reported state == real state
	var rep *api.Peer
	_ = w.s.ListPeer(context.Background(), &api.ListPeerRequest{Address: b.addr().String()}, func(x *api.Peer) { rep = x })
	if rep == nil {
		w.violate("C07:listpeer-missing", "ListPeer does not list the peer")
	} else {
		rs := strings.ToLower(strings.TrimPrefix(rep.State.SessionState.String(), "SESSION_STATE_"))
		if rs != real {
			w.violate(fmt.Sprintf("C07:reported-session-state:%s", ev), "event %s: ListPeer reports session state %s, the FSM is in %s", ev, rs, real)
		}
		repDown := rep.State.AdminState != api.PeerState_ADMIN_STATE_UP
		realDown := p.AdminState() != adminStateUp
		if repDown != realDown || realDown != (m.AdminDown || m.AdminPfx) {
			w.violate(fmt.Sprintf("C07:reported-admin-state:%s", ev), "event %s: ListPeer reports admin state %v, the FSM has %v, the reference machine admin-down=%v", ev, rep.State.AdminState, p.AdminState(), m.AdminDown)
		}
	}
	// 5. routing messages outside Established never change a RIB; in Established the Adj-RIB-In follows
	n := len(w.adjInDump(p))
	want := m.Routes
	if m.Routes2 {
		want++
	}
	if n != want {
		w.violate(fmt.Sprintf("C07:rib:%s", ev), "event %s: Adj-RIB-In holds %d routes, the reference machine expects %d (state %s)", ev, n, want, m.St)
	}
	if real != "established" && len(w.ribDump(w.s.globalRib)) != 0 {
		w.violate("C07:rib-not-empty-outside-established", "Loc-RIB holds routes of a session that is not established")
	}
}

func (sc *c07Scenario) Key(w *simWorld) string {
	m := sc.m
	clocks := ""
	if m.Conn {
		age := func(t time.Duration) time.Duration {
			if t < 0 {
				return -1
			}
			return w.now() - t
		}
		clocks = fmt.Sprintf("conn=%v ka=%v upd=%v", age(sc.tConn), age(sc.tLastKA), age(sc.tLastUpd))
	}
	return fmt.Sprintf("%+v|%s|pruned=%v|%s", m, clocks, sc.pruned, w.stateKey())
}

func TestVerif_C07_Sim(t *testing.T) {
	r := vr.Start(t, "C07", "sim")
	defer r.Finish()
	r.Rule = "explicit-state BFS over event histories {inbound connect, OPEN valid/bad version/bad AS/bad id/hold 1/hold 0, KEEPALIVE, UPDATE valid/malformed, ROUTE-REFRESH, NOTIFICATION, bad marker/length/type header, remote close, wait 1 s, wait exactly to the next timer deadline, enable, disable, shutdown, reset, delete} on a passive peer of the real daemon in virtual time, in lock-step with a reference RFC 4271 machine; non-trivial = distinct (reference state, daemon state) pair"
	r.Assumptions = append(r.Assumptions, "passive peer only (no outbound connect / collision: needs the dial hook)", "hold 9 s, keepalive 4 s, idle-hold 5 s, idle-hold-after-reset 7 s")
	if r.ReplayPath() != "" {
		var rp simReplay
		if err := r.LoadReplay(&rp); err != nil {
			t.Fatal(err)
		}
		simReplayOne(t, r, rp)
		return
	}
	depth := 7
	budget := 90 * time.Second
	if vr.Thorough() {
		depth, budget = 10, 15*time.Minute
	}
	simExplore(t, r, simExploreCfg{Scenario: "fsm", Arg: "", Depth: depth, Budget: budget})
	simExplore(t, r, simExploreCfg{Scenario: "fsm", Arg: "taw", Depth: depth - 1, Budget: budget})
	if r.Outcomes["reached-established"] == 0 {
		t.Fatalf("ENGINE-ERROR vacuous exploration: Established never reached")
	}
	simConfirm(t, r, 5)
}
