package table

// C03 — best path follows the documented decision process, whatever the arrival order.
// E-SEQ: bounded-exhaustive enumeration of candidate sets x arrival orders x replace/withdraw
// histories x all 16 option settings, against an independent elimination-tournament reference.

import (
	"encoding/json"
	"fmt"
	"log/slog"
	"net/netip"
	"sort"
	"strings"
	"testing"
	"time"

	"github.com/osrg/gobgp/v4/internal/verif/vr"
	"github.com/osrg/gobgp/v4/pkg/config/oc"
	"github.com/osrg/gobgp/v4/pkg/packet/bgp"
)

// ---- candidate description (plain data; the reference model only ever looks at this) ----

const (
	c03Local = iota
	c03EBGP
	c03IBGP
	c03Confed
)

type c03Src struct {
	Name string
	Kind int
	AS   uint32
	ID   uint32 // router-id as a number
	Addr uint32 // neighbour address as a number (0 = none, local)
}

const c03LocalAS = 65000

var c03Sources = []c03Src{
	{"local", c03Local, 0, 0, 0},
	{"e1", c03EBGP, 65001, 0x0a000001, 0x0a000109},
	{"e2", c03EBGP, 65002, 0x0a000002, 0x0a000105},
	{"e1b", c03EBGP, 65001, 0x0a000003, 0x0a000101},
	{"i1", c03IBGP, c03LocalAS, 0x0a000004, 0x0a000108},
	{"i2", c03IBGP, c03LocalAS, 0x0a000005, 0x0a000102},
	{"c1", c03Confed, 65101, 0x0a000006, 0x0a000107},
	{"c2", c03Confed, 65102, 0x0a000000, 0x0a000103},
	{"i3", c03IBGP, c03LocalAS, 0x0a000004, 0x0a000100}, // same router-id as i1, other address
}

type c03Seg struct {
	T  uint8
	AS []uint32
}

// AS_PATH shapes; index 0 is the default.
var c03Paths = [][]c03Seg{
	{{bgp.BGP_ASPATH_ATTR_TYPE_SEQ, []uint32{65001}}},
	{},
	{{bgp.BGP_ASPATH_ATTR_TYPE_SEQ, []uint32{65001, 65009}}},
	{{bgp.BGP_ASPATH_ATTR_TYPE_SET, []uint32{65001, 65009}}},
	{{bgp.BGP_ASPATH_ATTR_TYPE_CONFED_SEQ, []uint32{65101}}, {bgp.BGP_ASPATH_ATTR_TYPE_SEQ, []uint32{65001}}},
	{{bgp.BGP_ASPATH_ATTR_TYPE_SEQ, []uint32{65001}}, {bgp.BGP_ASPATH_ATTR_TYPE_SET, []uint32{65008, 65009}}},
	{{bgp.BGP_ASPATH_ATTR_TYPE_SEQ, []uint32{65002}}},
	{{bgp.BGP_ASPATH_ATTR_TYPE_SEQ, []uint32{65002, 65009}}},
	{{bgp.BGP_ASPATH_ATTR_TYPE_CONFED_SEQ, []uint32{65101, 65102}}},
	{{bgp.BGP_ASPATH_ATTR_TYPE_CONFED_SET, []uint32{65101}}, {bgp.BGP_ASPATH_ATTR_TYPE_SEQ, []uint32{65002}}},
}

type c03Cand struct {
	Src    int   `json:"src"`
	LP     int   `json:"lp"`   // -1 absent
	Path   int   `json:"path"` // index in c03Paths
	Origin int   `json:"origin"`
	MED    int   `json:"med"` // -1 absent
	TS     int64 `json:"ts"`
	NHInv  bool  `json:"nhinv,omitempty"`
	LLGR   bool  `json:"llgr,omitempty"`
}

func (c c03Cand) String() string {
	return fmt.Sprintf("{%s lp=%d path=%d origin=%d med=%d ts=%d nhinv=%v llgr=%v}",
		c03Sources[c.Src].Name, c.LP, c.Path, c.Origin, c.MED, c.TS, c.NHInv, c.LLGR)
}

type c03Opt struct {
	AlwaysMED, IgnoreLen, ExtRID, Multipath bool
}

func (o c03Opt) String() string {
	return fmt.Sprintf("acm=%v ial=%v ecr=%v mp=%v", o.AlwaysMED, o.IgnoreLen, o.ExtRID, o.Multipath)
}

func c03AllOpts() []c03Opt {
	var r []c03Opt
	for i := 0; i < 16; i++ {
		r = append(r, c03Opt{i&1 != 0, i&2 != 0, i&4 != 0, i&8 != 0})
	}
	return r
}

func c03SetOpt(o c03Opt) {
	SelectionOptions = oc.RouteSelectionOptionsConfig{AlwaysCompareMed: o.AlwaysMED, IgnoreAsPathLength: o.IgnoreLen, ExternalCompareRouterId: o.ExtRID}
	UseMultiplePaths = oc.UseMultiplePathsConfig{Enabled: o.Multipath}
}

// ---- reference model (written from RFC 4271 9.1.2.2 + the property text; no table.Path involved) ----

func c03PathLen(p []c03Seg) int {
	n := 0
	for _, s := range p {
		switch s.T {
		case bgp.BGP_ASPATH_ATTR_TYPE_SEQ:
			n += len(s.AS)
		case bgp.BGP_ASPATH_ATTR_TYPE_SET:
			n++
		}
	}
	return n
}

// neighbouring AS for the MED rule: first AS of the first non-confederation segment (0 = none).
func c03NeighAS(p []c03Seg) uint32 {
	for _, s := range p {
		if s.T == bgp.BGP_ASPATH_ATTR_TYPE_CONFED_SEQ || s.T == bgp.BGP_ASPATH_ATTR_TYPE_CONFED_SET || len(s.AS) == 0 {
			continue
		}
		return s.AS[0]
	}
	return 0
}

func c03MedComparable(a, b c03Cand, o c03Opt) bool {
	if o.AlwaysMED {
		return true
	}
	pa, pb := c03Paths[a.Path], c03Paths[b.Path]
	if c03PathLen(pa) == 0 && c03PathLen(pb) == 0 {
		return true
	}
	na, nb := c03NeighAS(pa), c03NeighAS(pb)
	return na != 0 && na == nb
}

func c03AllMedComparable(set []c03Cand, o c03Opt) bool {
	for i := range set {
		for j := i + 1; j < len(set); j++ {
			if !c03MedComparable(set[i], set[j], o) {
				return false
			}
		}
	}
	return true
}

func c03lp(c c03Cand) int {
	if c.LP < 0 {
		return 100
	}
	return c.LP
}
func c03med(c c03Cand) int {
	if c.MED < 0 {
		return 0
	}
	return c.MED
}
func c03internal(c c03Cand) bool {
	k := c03Sources[c.Src].Kind
	return k == c03IBGP || k == c03Confed
}

// c03RefBest runs the documented elimination over a set in which MED is comparable across all
// candidates. It returns the index of the winner and the step that finally decided (for the
// vacuity statistics), or -1 when the documented process leaves a tie.
func c03RefBest(set []c03Cand, o c03Opt) (int, string) { return c03RefBestMed(set, o, true) }

// c03RefBestMed: medStep=false skips the MED step (a pair whose MEDs are not comparable).
func c03RefBestMed(set []c03Cand, o c03Opt, medStep bool) (int, string) {
	alive := make([]int, len(set))
	for i := range alive {
		alive[i] = i
	}
	last := "only"
	keep := func(step string, score func(c c03Cand) int64) {
		if len(alive) <= 1 {
			return
		}
		best := int64(0)
		for k, i := range alive {
			if s := score(set[i]); k == 0 || s < best {
				best = s
			}
		}
		n := alive[:0:0]
		for _, i := range alive {
			if score(set[i]) == best {
				n = append(n, i)
			}
		}
		if len(n) != len(alive) {
			last = step
		}
		alive = n
	}
	b := func(x bool) int64 {
		if x {
			return 1
		}
		return 0
	}
	keep("llgr", func(c c03Cand) int64 { return b(c.LLGR) })
	keep("nexthop", func(c c03Cand) int64 { return b(c.NHInv) })
	keep("localpref", func(c c03Cand) int64 { return -int64(c03lp(c)) })
	keep("localorigin", func(c c03Cand) int64 { return b(c03Sources[c.Src].Kind != c03Local) })
	if !o.IgnoreLen {
		keep("aspath", func(c c03Cand) int64 { return int64(c03PathLen(c03Paths[c.Path])) })
	}
	keep("origin", func(c c03Cand) int64 { return int64(c.Origin) })
	if medStep {
		keep("med", func(c c03Cand) int64 { return int64(c03med(c)) })
	}
	keep("ebgp", func(c c03Cand) int64 { return b(c03internal(c)) })
	if len(alive) > 1 {
		allExt := true
		for _, i := range alive {
			if c03internal(set[i]) || c03Sources[set[i].Src].Kind == c03Local {
				allExt = false
			}
		}
		if allExt && !o.ExtRID {
			keep("age", func(c c03Cand) int64 { return c.TS })
		} else {
			keep("routerid", func(c c03Cand) int64 { return int64(c03Sources[c.Src].ID) })
		}
		keep("neighaddr", func(c c03Cand) int64 { return int64(c03Sources[c.Src].Addr) })
	}
	if len(alive) != 1 {
		return -1, "tie"
	}
	return alive[0], last
}

// equal-cost set per the documented multipath rule: same class (local / iBGP / other), LOCAL_PREF,
// AS_PATH length, ORIGIN and MED as the best, reachable.
func c03EqualCost(a, b c03Cand) bool {
	ka, kb := c03Sources[a.Src].Kind, c03Sources[b.Src].Kind
	cls := func(k int) int {
		switch k {
		case c03Local:
			return 0
		case c03IBGP:
			return 1
		}
		return 2
	}
	return cls(ka) == cls(kb) && c03lp(a) == c03lp(b) && c03PathLen(c03Paths[a.Path]) == c03PathLen(c03Paths[b.Path]) &&
		a.Origin == b.Origin && c03med(a) == c03med(b)
}

// ---- binding to the implementation ----

var c03PeerInfos []*PeerInfo

func c03Addr(u uint32) netip.Addr {
	return netip.AddrFrom4([4]byte{byte(u >> 24), byte(u >> 16), byte(u >> 8), byte(u)})
}

func init() {
	for _, s := range c03Sources {
		if s.Kind == c03Local {
			c03PeerInfos = append(c03PeerInfos, nil)
			continue
		}
		pi := &PeerInfo{AS: s.AS, ID: c03Addr(s.ID), Address: c03Addr(s.Addr), LocalAS: c03LocalAS, LocalID: c03Addr(0x0a0000fe), LocalAddress: c03Addr(0x0a0001fe)}
		switch s.Kind {
		case c03EBGP:
			pi.PeerType = oc.PEER_TYPE_EXTERNAL
		case c03IBGP:
			pi.PeerType = oc.PEER_TYPE_INTERNAL
		case c03Confed:
			pi.PeerType = oc.PEER_TYPE_EXTERNAL
			pi.Confederation = true
		}
		c03PeerInfos = append(c03PeerInfos, pi)
	}
}

var c03Nlri = func() bgp.NLRI {
	n, err := bgp.NewIPAddrPrefix(netip.MustParsePrefix("10.10.0.0/24"))
	if err != nil {
		panic(err)
	}
	return n
}()

func c03Build(c c03Cand) *Path {
	attrs := []bgp.PathAttributeInterface{bgp.NewPathAttributeOrigin(uint8(c.Origin))}
	var segs []bgp.AsPathParamInterface
	for _, s := range c03Paths[c.Path] {
		segs = append(segs, bgp.NewAs4PathParam(s.T, append([]uint32{}, s.AS...)))
	}
	attrs = append(attrs, bgp.NewPathAttributeAsPath(segs))
	nh, _ := bgp.NewPathAttributeNextHop(netip.MustParseAddr("192.0.2.1"))
	attrs = append(attrs, nh)
	if c.MED >= 0 {
		attrs = append(attrs, bgp.NewPathAttributeMultiExitDisc(uint32(c.MED)))
	}
	if c.LP >= 0 {
		attrs = append(attrs, bgp.NewPathAttributeLocalPref(uint32(c.LP)))
	}
	if c.LLGR {
		attrs = append(attrs, bgp.NewPathAttributeCommunities([]uint32{uint32(bgp.COMMUNITY_LLGR_STALE)}))
	}
	p := NewPath(bgp.RF_IPv4_UC, c03PeerInfos[c.Src], bgp.PathNLRI{NLRI: c03Nlri}, false, attrs, time.Unix(1000+c.TS, 0), false)
	p.IsNexthopInvalid = c.NHInv
	return p
}

var c03Logger = slog.New(slog.NewTextHandler(c03Discard{}, &slog.HandlerOptions{Level: slog.LevelError}))

type c03Discard struct{}

func (c03Discard) Write(b []byte) (int, error) { return len(b), nil }

// c03Op is one step of a history: announce candidate Cand (implicitly replacing an earlier route of
// the same source) or withdraw the route of source Src.
type c03Op struct {
	W    bool    `json:"w,omitempty"`
	Cand c03Cand `json:"cand"`
}

type c03Result struct {
	order []int  // candidate identity (index in the final set, by source) in knownPathList order
	best  int    // -1 = none (e.g. next hop invalid)
	multi string // sorted set of members
	err   string
}

// c03Run applies a history to a fresh destination through Calculate and reports the final list in
// terms of the final set's indices (identified by source).
func c03Run(final []c03Cand, hist []c03Op) c03Result {
	d := newDestination(c03Nlri, 64)
	byPath := map[*Path]int{}
	srcIdx := map[int]int{}
	for i, c := range final {
		srcIdx[c.Src] = i
	}
	for _, op := range hist {
		p := c03Build(op.Cand)
		if op.W {
			p.IsWithdraw = true
		} else if i, ok := srcIdx[op.Cand.Src]; ok && final[i] == op.Cand {
			byPath[p] = i
		}
		u, _ := d.Calculate(c03Logger, p)
		// GetChanges consistency: when it reports a non-withdrawn best it must be the head.
		nb, _, _ := u.GetChanges(GLOBAL_RIB_NAME, 0, false)
		if nb != nil && !nb.IsWithdraw && len(d.knownPathList) > 0 && nb != d.knownPathList[0] {
			return c03Result{err: "GetChanges reported a best path that is not the head of the list"}
		}
	}
	r := c03Result{best: -1}
	for _, p := range d.knownPathList {
		i, ok := byPath[p]
		if !ok {
			return c03Result{err: "list holds a path that is not in the final set: " + p.String()}
		}
		r.order = append(r.order, i)
	}
	if len(r.order) != len(final) {
		r.err = fmt.Sprintf("list has %d paths, final set has %d", len(r.order), len(final))
		return r
	}
	if b := d.GetBestPath(GLOBAL_RIB_NAME, 0); b != nil {
		r.best = byPath[b]
	}
	var m []int
	for _, p := range d.GetMultiBestPath(GLOBAL_RIB_NAME) {
		m = append(m, byPath[p])
	}
	sort.Ints(m)
	r.multi = fmt.Sprint(m)
	return r
}

// ---- enumeration ----

type c03Case struct {
	Opt   c03Opt    `json:"opt"`
	Final []c03Cand `json:"final"`
	Hist  []c03Op   `json:"hist"`
}

func c03Perms(n int) [][]int {
	var res [][]int
	var rec func(cur []int, used int)
	rec = func(cur []int, used int) {
		if len(cur) == n {
			res = append(res, append([]int{}, cur...))
			return
		}
		for i := 0; i < n; i++ {
			if used&(1<<i) == 0 {
				rec(append(cur, i), used|1<<i)
			}
		}
	}
	rec(nil, 0)
	return res
}

func c03Sig(set []c03Cand, o c03Opt) string {
	// failure signature: source kinds involved + which steps could be in play; independent of the
	// concrete values so that one root cause gives one key.
	kinds := map[string]bool{}
	for _, c := range set {
		kinds[[]string{"local", "ebgp", "ibgp", "confed"}[c03Sources[c.Src].Kind]] = true
	}
	var ks []string
	for k := range kinds {
		ks = append(ks, k)
	}
	sort.Strings(ks)
	return fmt.Sprintf("kinds=%s ecr=%v", strings.Join(ks, "+"), o.ExtRID)
}

// c03Check evaluates one final set under one option setting over a list of histories that all end
// in that set. Returns after recording violations.
func c03Check(r *vr.Report, o c03Opt, set []c03Cand, hists [][]c03Op, tag string) {
	comparable := c03AllMedComparable(set, o)
	refBest, step := -1, "n/a"
	if comparable {
		refBest, step = c03RefBest(set, o)
	} else if len(set) == 2 {
		// a pair is always decidable: MED simply does not take part when it is not comparable
		// ("lowest MED among comparable routes")
		refBest, step = c03RefBestMed(set, o, false)
		step += "(med-not-comparable)"
	}
	pairOnly := !comparable && len(set) == 2
	var first *c03Result
	for hi, h := range hists {
		r.Eval()
		res := c03Run(set, h)
		cs := c03Case{o, set, h}
		if res.err != "" {
			r.Violationf("C03:inconsistency:"+res.err[:20], cs, "%s: %s set=%v", tag, res.err, set)
			continue
		}
		if !comparable && !pairOnly {
			continue
		}
		// The precondition of the property is evaluated over every route that was ever a candidate
		// in this history (a withdrawn or replaced route that is not MED-comparable with the others
		// may legitimately leave an order-dependent ranking behind: gobgp does not implement
		// deterministic-MED and the property does not ask for it).
		all := append([]c03Cand{}, set...)
		for _, op := range h {
			if !op.W {
				all = append(all, op.Cand)
			}
		}
		if !pairOnly && !c03AllMedComparable(all, o) {
			r.Outcome("history-passes-through-non-comparable-med(skipped)")
			continue
		}
		sig := c03Sig(all, o)
		head := res.order[0]
		if refBest >= 0 {
			wantBest := refBest
			if set[refBest].NHInv {
				wantBest = -1
			}
			if head != refBest {
				r.Violationf("C03:best-differs-from-reference:"+sig+":step="+step, cs,
					"%s %s: implementation head=%v reference best=%v (decided by %s) set=%v history#%d", tag, o, set[head], set[refBest], step, set, hi)
			} else if res.best != wantBest {
				r.Violationf("C03:GetBestPath-differs-from-head", cs, "%s %s: GetBestPath=%d want %d set=%v", tag, o, res.best, wantBest, set)
			}
		}
		// multipath soundness: contains the head, every member reachable and of equal cost
		// (LOCAL_PREF, AS_PATH length unless ignored, ORIGIN, MED) with the head.
		if !set[head].NHInv {
			var m []int
			json.Unmarshal([]byte(strings.ReplaceAll(res.multi, " ", ",")), &m)
			hasHead := false
			for _, i := range m {
				if i == head {
					hasHead = true
				}
				c, b := set[i], set[head]
				if c.NHInv || c03lp(c) != c03lp(b) || c.Origin != b.Origin || c03med(c) != c03med(b) ||
					(!o.IgnoreLen && c03PathLen(c03Paths[c.Path]) != c03PathLen(c03Paths[b.Path])) {
					r.Violationf("C03:multipath-member-not-equal-cost:"+sig, cs, "%s %s: multipath set %s contains %v which is not equal-cost with the best %v", tag, o, res.multi, c, b)
				}
			}
			if !hasHead {
				r.Violationf("C03:multipath-misses-best:"+sig, cs, "%s %s: multipath set %s does not contain the best %v; set=%v", tag, o, res.multi, set[head], set)
			}
		}
		if first == nil {
			f := res
			first = &f
			continue
		}
		if res.order[0] != first.order[0] {
			r.Violationf("C03:arrival-order-dependent-best:"+sig, cs,
				"%s %s: MED comparable across all candidates, yet history#%d gives best=%v while history#0 gives best=%v; set=%v",
				tag, o, hi, set[res.order[0]], set[first.order[0]], set)
		} else if res.multi != first.multi {
			r.Violationf("C03:arrival-order-dependent-multipath:"+sig, cs,
				"%s %s: MED comparable across all candidates, same best, yet history#%d gives multipath set %s while history#0 gives %s; set=%v",
				tag, o, hi, res.multi, first.multi, set)
		} else if fmt.Sprint(res.order) != fmt.Sprint(first.order) {
			r.Violationf("C03:arrival-order-dependent-ranking:"+sig, cs,
				"%s %s: same best but the ranking behind it depends on arrival order (%v vs %v), which a later withdrawal exposes; set=%v",
				tag, o, res.order, first.order, set)
		}
	}
	if comparable || pairOnly {
		r.NT(fmt.Sprint(o, set))
		r.Outcome("decided-by-" + step)
	} else {
		r.Outcome("med-not-comparable(skipped order oracle)")
	}
}

// c03Twins: single-factor variants of a candidate (same source): what its source may have announced
// before the final version.
func c03Twins(c c03Cand) []c03Cand {
	var out []c03Cand
	add := func(x c03Cand) {
		if x != c {
			out = append(out, x)
		}
	}
	for _, lp := range []int{-1, 100, 200} {
		x := c
		x.LP = lp
		add(x)
	}
	for _, p := range []int{0, 1, 2} {
		x := c
		x.Path = p
		add(x)
	}
	for _, og := range []int{0, 2} {
		x := c
		x.Origin = og
		add(x)
	}
	for _, m := range []int{-1, 10} {
		x := c
		x.MED = m
		add(x)
	}
	for _, t := range []int64{1, 3} {
		x := c
		x.TS = t
		add(x)
	}
	x := c
	x.NHInv = !c.NHInv
	add(x)
	x = c
	x.LLGR = !c.LLGR
	add(x)
	return out
}

// c03ReplaceHistories: for every member i and every twin t of it, the set arrives with t in place of
// member i (forward and reverse order), then the source of i announces the final version.
func c03ReplaceHistories(set []c03Cand) [][]c03Op {
	var hs [][]c03Op
	for i := range set {
		for _, t := range c03Twins(set[i]) {
			for _, rev := range []bool{false, true} {
				var h []c03Op
				for k := range set {
					j := k
					if rev {
						j = len(set) - 1 - k
					}
					c := set[j]
					if j == i {
						c = t
					}
					h = append(h, c03Op{Cand: c})
				}
				h = append(h, c03Op{Cand: set[i]})
				hs = append(hs, h)
			}
		}
	}
	return hs
}

func c03DistinctSources(set []c03Cand) bool {
	seen := map[int]bool{}
	for _, c := range set {
		if seen[c.Src] {
			return false
		}
		seen[c.Src] = true
	}
	return true
}

var c03Default = c03Cand{Src: 1, LP: -1, Path: 0, Origin: 0, MED: -1, TS: 2}

// candidates that deviate from the default in at most k factors
func c03Deviations(k int) []c03Cand {
	type fac struct{ n int }
	lp := []int{-1, 100, 200}
	origin := []int{0, 1, 2}
	med := []int{-1, 0, 10}
	ts := []int64{2, 1, 3}
	var out []c03Cand
	for s := range c03Sources {
		for _, l := range lp {
			for p := range c03Paths {
				for _, og := range origin {
					for _, m := range med {
						for _, t := range ts {
							for nh := 0; nh < 2; nh++ {
								for st := 0; st < 2; st++ {
									c := c03Cand{s, l, p, og, m, t, nh == 1, st == 1}
									d := 0
									if c.Src != c03Default.Src {
										d++
									}
									if c.LP != c03Default.LP {
										d++
									}
									if c.Path != c03Default.Path {
										d++
									}
									if c.Origin != c03Default.Origin {
										d++
									}
									if c.MED != c03Default.MED {
										d++
									}
									if c.TS != c03Default.TS {
										d++
									}
									if c.NHInv {
										d++
									}
									if c.LLGR {
										d++
									}
									if d <= k {
										out = append(out, c)
									}
								}
							}
						}
					}
				}
			}
		}
	}
	return out
}

// c03Universe: a small universe in which every comparator step is decisive for some pair.
func c03Universe(n int) []c03Cand {
	u := []c03Cand{}
	add := func(c c03Cand) { u = append(u, c) }
	// one plain candidate per source, with distinct ages
	for s := range c03Sources {
		add(c03Cand{Src: s, LP: -1, Path: 0, Origin: 0, MED: -1, TS: int64(1 + s%3)})
	}
	add(c03Cand{Src: 1, LP: 200, Path: 0, Origin: 0, MED: -1, TS: 3})
	add(c03Cand{Src: 2, LP: -1, Path: 2, Origin: 0, MED: -1, TS: 1})
	add(c03Cand{Src: 3, LP: -1, Path: 0, Origin: 1, MED: -1, TS: 1})
	add(c03Cand{Src: 2, LP: -1, Path: 0, Origin: 0, MED: 10, TS: 1})
	add(c03Cand{Src: 4, LP: -1, Path: 1, Origin: 0, MED: 10, TS: 1})
	add(c03Cand{Src: 5, LP: -1, Path: 1, Origin: 0, MED: -1, TS: 1})
	add(c03Cand{Src: 6, LP: -1, Path: 4, Origin: 0, MED: -1, TS: 3})
	add(c03Cand{Src: 7, LP: -1, Path: 8, Origin: 0, MED: -1, TS: 1})
	if n > 16 {
		add(c03Cand{Src: 3, LP: -1, Path: 0, Origin: 0, MED: -1, TS: 2, NHInv: true})
		add(c03Cand{Src: 2, LP: -1, Path: 0, Origin: 0, MED: -1, TS: 1, LLGR: true})
		add(c03Cand{Src: 2, LP: -1, Path: 6, Origin: 0, MED: 0, TS: 3})
		add(c03Cand{Src: 3, LP: -1, Path: 6, Origin: 0, MED: 10, TS: 1})
		add(c03Cand{Src: 1, LP: -1, Path: 3, Origin: 0, MED: -1, TS: 1})
		add(c03Cand{Src: 2, LP: -1, Path: 5, Origin: 0, MED: -1, TS: 1})
		add(c03Cand{Src: 4, LP: 200, Path: 2, Origin: 2, MED: -1, TS: 1})
		add(c03Cand{Src: 5, LP: 100, Path: 0, Origin: 0, MED: 0, TS: 1})
		add(c03Cand{Src: 6, LP: -1, Path: 0, Origin: 0, MED: -1, TS: 1})
		add(c03Cand{Src: 7, LP: -1, Path: 4, Origin: 0, MED: -1, TS: 2})
		add(c03Cand{Src: 8, LP: -1, Path: 1, Origin: 0, MED: -1, TS: 1})
		add(c03Cand{Src: 0, LP: -1, Path: 1, Origin: 2, MED: -1, TS: 3})
		add(c03Cand{Src: 1, LP: -1, Path: 9, Origin: 0, MED: -1, TS: 1})
		add(c03Cand{Src: 6, LP: -1, Path: 9, Origin: 0, MED: 10, TS: 2})
		add(c03Cand{Src: 7, LP: -1, Path: 0, Origin: 0, MED: -1, TS: 3})
		add(c03Cand{Src: 4, LP: -1, Path: 0, Origin: 0, MED: -1, TS: 3})
		add(c03Cand{Src: 5, LP: -1, Path: 7, Origin: 0, MED: -1, TS: 2})
		add(c03Cand{Src: 3, LP: 100, Path: 7, Origin: 0, MED: 0, TS: 3})
	}
	if len(u) > n {
		u = u[:n]
	}
	return u
}

func c03Subsets(n, k int, f func(idx []int)) {
	idx := make([]int, k)
	var rec func(start, d int)
	rec = func(start, d int) {
		if d == k {
			f(idx)
			return
		}
		for i := start; i < n; i++ {
			idx[d] = i
			rec(i+1, d+1)
		}
	}
	rec(0, 0)
}

// histories that end in `set`: every arrival order; plus, for each order, (i) an extra candidate of
// another source arriving first and withdrawn at the end, (ii) the first-arriving source first
// announcing a different route and later replacing it.
func c03Histories(set []c03Cand, perms [][]int, extra []c03Cand, rich bool) [][]c03Op {
	var hs [][]c03Op
	for _, p := range perms {
		var h []c03Op
		for _, i := range p {
			h = append(h, c03Op{Cand: set[i]})
		}
		hs = append(hs, h)
		if !rich {
			continue
		}
		for _, x := range extra {
			used := false
			for _, c := range set {
				if c.Src == x.Src {
					used = true
				}
			}
			if used {
				// replacement history: the source first announces x, the final route replaces it
				// at its own position in the order
				h2 := []c03Op{{Cand: x}}
				h2 = append(h2, h...)
				hs = append(hs, h2)
				continue
			}
			// withdraw history: x arrives in the middle and is withdrawn at the end
			h3 := append([]c03Op{}, h[:len(h)/2]...)
			h3 = append(h3, c03Op{Cand: x})
			h3 = append(h3, h[len(h)/2:]...)
			h3 = append(h3, c03Op{W: true, Cand: x})
			hs = append(hs, h3)
		}
	}
	return hs
}

func TestVerif_C03(t *testing.T) {
	r := vr.Start(t, "C03", "decision")
	defer r.Finish()
	r.Rule = "candidate sets (pairs over all candidates with <=k deviations from the default; triples and 4-sets over fixed universes) x all arrival orders x replace/withdraw histories ending in the same set x 16 option settings; non-trivial = distinct (options,set) in which MED is comparable across all candidates, so the order-independence and reference-best oracles applied"
	if r.ReplayPath() != "" {
		var cs c03Case
		if err := r.LoadReplay(&cs); err != nil {
			t.Fatal(err)
		}
		c03SetOpt(cs.Opt)
		c03Check(r, cs.Opt, cs.Final, [][]c03Op{cs.Hist, cs.Hist}, "replay")
		// also all plain orders, so that order-dependence replays
		c03Check(r, cs.Opt, cs.Final, c03Histories(cs.Final, c03Perms(len(cs.Final)), nil, false), "replay-orders")
		return
	}
	defer c03SetOpt(c03Opt{})
	dev, uni3, uni4, uni5 := 2, 34, 16, 0
	if vr.Thorough() {
		dev, uni3, uni4, uni5 = 3, 34, 20, 12
	}
	r.Bounds["pair_deviations"] = dev
	r.Bounds["triple_universe"] = uni3
	r.Bounds["quad_universe"] = uni4
	r.Bounds["quint_universe"] = uni5
	r.Bounds["options"] = 16
	W := vr.Workers()
	devs := c03Deviations(dev)
	U3, U4 := c03Universe(uni3), c03Universe(uni4)
	r.Extra["pair_candidates"] = len(devs)
	p2, p3, p4 := c03Perms(2), c03Perms(3), c03Perms(4)
	extra := []c03Cand{
		{Src: 1, LP: 200, Path: 2, Origin: 2, MED: 10, TS: 1},
		{Src: 5, LP: -1, Path: 1, Origin: 0, MED: -1, TS: 1},
		{Src: 6, LP: -1, Path: 4, Origin: 0, MED: -1, TS: 1},
	}
	for _, o := range c03AllOpts() {
		c03SetOpt(o) // package globals: constant during each parallel phase
		r.Parallel(W, func(w int, c *vr.Report) {
			n := 0
			for i := range devs {
				for j := i + 1; j < len(devs); j++ {
					n++
					if n%W != w {
						continue
					}
					set := []c03Cand{devs[i], devs[j]}
					if !c03DistinctSources(set) {
						continue
					}
					hs := c03Histories(set, p2, nil, false)
					if n%7 == 0 {
						hs = append(hs, c03ReplaceHistories(set)...)
					}
					c03Check(c, o, set, hs, "pair")
					if c.WantSample() && n%977 == 0 {
						c.Sample(c03Case{o, set, nil})
					}
				}
			}
		})
		r.Parallel(W, func(w int, c *vr.Report) {
			n := 0
			c03Subsets(len(U3), 3, func(idx []int) {
				n++
				if n%W != w {
					return
				}
				set := []c03Cand{U3[idx[0]], U3[idx[1]], U3[idx[2]]}
				if !c03DistinctSources(set) {
					return
				}
				c03Check(c, o, set, append(c03Histories(set, p3, extra, true), c03ReplaceHistories(set)...), "triple")
			})
		})
		r.Parallel(W, func(w int, c *vr.Report) {
			n := 0
			c03Subsets(len(U4), 4, func(idx []int) {
				n++
				if n%W != w {
					return
				}
				set := []c03Cand{U4[idx[0]], U4[idx[1]], U4[idx[2]], U4[idx[3]]}
				if !c03DistinctSources(set) {
					return
				}
				c03Check(c, o, set, c03Histories(set, p4, extra, true), "quad")
				if c.WantSample() && n%397 == 0 {
					c.Sample(c03Case{o, set, c03Histories(set, p4[:1], extra[:1], true)[1]})
				}
			})
		})
		if uni5 > 0 {
			U5, p5 := c03Universe(uni5), c03Perms(5)
			r.Parallel(W, func(w int, c *vr.Report) {
				n := 0
				c03Subsets(len(U5), 5, func(idx []int) {
					n++
					if n%W != w {
						return
					}
					set := []c03Cand{U5[idx[0]], U5[idx[1]], U5[idx[2]], U5[idx[3]], U5[idx[4]]}
					if !c03DistinctSources(set) {
						return
					}
					c03Check(c, o, set, c03Histories(set, p5, nil, false), "quint")
				})
			})
		}
	}
	_ = json.Marshal
}
