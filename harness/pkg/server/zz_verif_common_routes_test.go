package server

// Scenario "routes": k bots exchange routes over a shared prefix pool with the daemon; sessions flap,
// peers are deleted/re-added, routes are injected through the API. Oracles: C01 (what each bot has been
// told == from-scratch export of the Loc-RIB) and C02 (Adj-RIB-In / Loc-RIB == boring map model).

import (
	"context"
	"fmt"
	"net/netip"
	"sort"
	"strings"
	"time"

	api "github.com/osrg/gobgp/v4/api"
	"github.com/osrg/gobgp/v4/internal/pkg/table"
	"github.com/osrg/gobgp/v4/pkg/apiutil"
	"github.com/osrg/gobgp/v4/pkg/config/oc"
	"github.com/osrg/gobgp/v4/pkg/packet/bgp"
)

var simPrefixes = []string{"10.10.1.0/24", "10.10.2.0/24", "2001:db8:1::/48"}

// simCollidingPrefixes: two IPv6 host routes whose 64-bit table keys (FNV-1a over the NLRI, internal/pkg/table
// tableKey) are equal: they share one hash bucket of the table's shard map (found by a distinguished-point
// search; the C02 harness checks the collision before relying on it). Selected with the argument "collide".
var simCollidingPrefixes = []string{"2001:db8::e35f:7abc:b8d9:c9b0/128", "2001:db8::9151:51de:6c00:fd1e/128"}

type simBotKind struct {
	name string
	spec func(i int) simBotSpec
}

// bot kinds by letter
var simBotKinds = map[byte]func(i int) simBotSpec{
	'e': func(i int) simBotSpec { // eBGP
		return simBotSpec{Name: fmt.Sprintf("e%d", i), IP: [4]byte{10, 0, 0, byte(1 + i)}, AS: uint32(65001 + i), RouterID: [4]byte{1, 1, 1, byte(1 + i)}}
	},
	'd': func(i int) simBotSpec { // eBGP, parallel sessions to ONE router: same AS and BGP identifier, different addresses
		return simBotSpec{Name: fmt.Sprintf("d%d", i), IP: [4]byte{10, 0, 0, byte(1 + i)}, AS: 65001, RouterID: [4]byte{1, 1, 1, 1}}
	},
	'i': func(i int) simBotSpec { // iBGP non-client
		return simBotSpec{Name: fmt.Sprintf("i%d", i), IP: [4]byte{10, 0, 0, byte(1 + i)}, AS: 65000, RouterID: [4]byte{1, 1, 1, byte(1 + i)}}
	},
	'c': func(i int) simBotSpec { // route-reflector client
		return simBotSpec{Name: fmt.Sprintf("c%d", i), IP: [4]byte{10, 0, 0, byte(1 + i)}, AS: 65000, RouterID: [4]byte{1, 1, 1, byte(1 + i)},
			Neighbor: func(n *oc.Neighbor) {
				n.RouteReflector.Config.RouteReflectorClient = true
				n.RouteReflector.Config.RouteReflectorClusterId = netip.MustParseAddr("10.0.0.254")
			}}
	},
	's': func(i int) simBotSpec { // route-server client
		return simBotSpec{Name: fmt.Sprintf("s%d", i), IP: [4]byte{10, 0, 0, byte(1 + i)}, AS: uint32(65001 + i), RouterID: [4]byte{1, 1, 1, byte(1 + i)},
			Neighbor: func(n *oc.Neighbor) { n.RouteServer.Config.RouteServerClient = true }}
	},
	'a': func(i int) simBotSpec { // eBGP, ADD-PATH: server sends up to 2 paths, receives add-path too
		return simBotSpec{Name: fmt.Sprintf("a%d", i), IP: [4]byte{10, 0, 0, byte(1 + i)}, AS: uint32(65001 + i), RouterID: [4]byte{1, 1, 1, byte(1 + i)},
			AddPath: map[bgp.Family]bgp.BGPAddPathMode{bgp.RF_IPv4_UC: bgp.BGP_ADD_PATH_BOTH},
			Neighbor: func(n *oc.Neighbor) {
				for j := range n.AfiSafis {
					n.AfiSafis[j].AddPaths.Config.SendMax = 2
					n.AfiSafis[j].AddPaths.Config.Receive = true
				}
			}}
	},
'A': func(i int) simBotSpec { // eBGP, ADD-PATH with send-max 1 (one path over the limit is enough)
		return simBotSpec{Name: fmt.Sprintf("A%d", i), IP: [4]byte{10, 0, 0, byte(1 + i)}, AS: uint32(65001 + i), RouterID: [4]byte{1, 1, 1, byte(1 + i)},
			AddPath: map[bgp.Family]bgp.BGPAddPathMode{bgp.RF_IPv4_UC: bgp.BGP_ADD_PATH_RECEIVE},
			Neighbor: func(n *oc.Neighbor) {
				for j := range n.AfiSafis {
					n.AfiSafis[j].AddPaths.Config.SendMax = 1
				}
			}}
	},
	'B': func(i int) simBotSpec { // eBGP, ADD-PATH receiver with room for four paths per prefix
		return simBotSpec{Name: fmt.Sprintf("B%d", i), IP: [4]byte{10, 0, 0, byte(1 + i)}, AS: uint32(65001 + i), RouterID: [4]byte{1, 1, 1, byte(1 + i)},
			AddPath: map[bgp.Family]bgp.BGPAddPathMode{bgp.RF_IPv4_UC: bgp.BGP_ADD_PATH_RECEIVE},
			Neighbor: func(n *oc.Neighbor) {
				for j := range n.AfiSafis {
					n.AfiSafis[j].AddPaths.Config.SendMax = 4
				}
			}}
	},
	'6': func(i int) simBotSpec { // eBGP with IPv4+IPv6 unicast
		return simBotSpec{Name: fmt.Sprintf("v%d", i), IP: [4]byte{10, 0, 0, byte(1 + i)}, AS: uint32(65001 + i), RouterID: [4]byte{1, 1, 1, byte(1 + i)},
			Families: []bgp.Family{bgp.RF_IPv4_UC, bgp.RF_IPv6_UC}}
	},
}

type simRoutesScenario struct {
	cfg     string // one letter per bot
	oracle  string // "c01" | "c02" | "both"
	npfx    int
	nvar    int
	noFlap  bool
	noAPI   bool
	noPeers bool
	noDrain bool // teardown without force-draining the peers' queues (C20 leak oracle)
	pfxs    []string // prefix alphabet (default simPrefixes)
	vmap    string   // if set: digit i is the only route variant bot i announces
	noWd    bool     // no withdrawals in the alphabet
	maxPfx  int    // if >0: bot 0's neighbour is configured with this prefix limit (per family)
	src     string // if set: only the bots whose index digit occurs here announce / withdraw
	flap    string // if set: only the bots whose index digit occurs here go down / up
	// C02 model: what each bot announced on its current session
	model map[string]simModelRoute // key bot|prefix|pathid
	local map[string]int           // prefix -> variant of API route
	ops   int
}

type simModelRoute struct {
	bot     int
	pfx     int
	pathID  uint32
	variant int
	seq     int // announcement order (age)
}

func init() {
	simScenarios["routes"] = func(arg string) simScenario {
		sc := &simRoutesScenario{oracle: "both", npfx: 2, nvar: 2}
		for _, kv := range strings.Split(arg, ";") {
			k, v, _ := strings.Cut(kv, "=")
			switch k {
			case "cfg":
				sc.cfg = v
			case "oracle":
				sc.oracle = v
			case "npfx":
				fmt.Sscan(v, &sc.npfx)
			case "nvar":
				fmt.Sscan(v, &sc.nvar)
			case "noflap":
				sc.noFlap = true
			case "noapi":
				sc.noAPI = true
			case "nopeers":
				sc.noPeers = true
			case "nodrain":
				sc.noDrain = true
			case "vmap":
				sc.vmap = v
			case "nowd":
				sc.noWd = true
			case "collide":
				sc.pfxs = simCollidingPrefixes
				sc.npfx = 2
			case "maxpfx":
				fmt.Sscan(v, &sc.maxPfx)
			case "src":
				sc.src = v
			case "flap":
				sc.flap = v
			}
		}
		return sc
	}
}

func (sc *simRoutesScenario) ForceDrain() bool { return !sc.noDrain }

func (sc *simRoutesScenario) prefix(i int) string {
	if sc.pfxs != nil {
		return sc.pfxs[i]
	}
	return simPrefixes[i]
}

func (sc *simRoutesScenario) Setup(w *simWorld) {
	sc.model = map[string]simModelRoute{}
	sc.local = map[string]int{}
	var _ *api.Global // default global families: ipv4-unicast + ipv6-unicast
	w.start()
	for i := 0; i < len(sc.cfg); i++ {
		spec := simBotKinds[sc.cfg[i]](i)
		if i == 0 && sc.maxPfx > 0 {
			inner, lim := spec.Neighbor, uint32(sc.maxPfx)
			spec.Neighbor = func(n *oc.Neighbor) {
				if inner != nil {
					inner(n)
				}
				for j := range n.AfiSafis {
					n.AfiSafis[j].PrefixLimit.Config.MaxPrefixes = lim
				}
			}
		}
		w.addBot(spec)
	}
	w.advance(time.Second) // idle hold timer: Idle -> Active
	for _, b := range w.bots {
		if !b.handshake() {
			panic("setup: session with " + b.spec.Name + " did not establish")
		}
		sc.foldNew(w)
	}
	w.advance(time.Second)
	sc.foldNew(w)
}

// foldNew applies the UPDATEs received since the last call to every bot's view, in arrival order.
func (sc *simRoutesScenario) foldNew(w *simWorld) {
	for _, b := range w.bots {
		g := b.takeGroup()
		keys := map[string]int{}
		for _, rx := range g {
			for _, k := range simFold(b.view, rx.Msg) {
				keys[k]++
			}
		}
		for _, n := range keys {
			if n > 1 {
				w.stat("same-key-touched-twice-in-one-quiescent-step")
			}
		}
	}
}

func (sc *simRoutesScenario) botFamilies(b *simBot) []bgp.Family { return b.spec.Families }

func (sc *simRoutesScenario) pfxOK(b *simBot, p int) bool {
	f := bgp.RF_IPv4_UC
	if strings.Contains(sc.prefix(p), ":") {
		f = bgp.RF_IPv6_UC
	}
	for _, x := range b.spec.Families {
		if x == f {
			return true
		}
	}
	return false
}

func (sc *simRoutesScenario) Enabled(w *simWorld) []simEvent {
	var ev []simEvent
	for i, b := range w.bots {
		p := w.peer(b)
		est := p != nil && p.State() == bgp.BGP_FSM_ESTABLISHED && b.connected()
		maySrc := sc.src == "" || strings.Contains(sc.src, fmt.Sprint(i))
		mayFlap := !sc.noFlap && (sc.flap == "" || strings.Contains(sc.flap, fmt.Sprint(i)))
		if est {
			for pf := 0; pf < sc.npfx && maySrc; pf++ {
				if !sc.pfxOK(b, pf) {
					continue
				}
				for v := 0; v < sc.nvar; v++ {
					if i < len(sc.vmap) && int(sc.vmap[i]-'0') != v {
						continue
					}
					ev = append(ev, simEvent{Op: "ann", Bot: i, A: pf, B: v})
				}
				if !sc.noWd {
					ev = append(ev, simEvent{Op: "wd", Bot: i, A: pf})
				}
				if b.spec.AddPath[bgp.RF_IPv4_UC]&bgp.BGP_ADD_PATH_SEND != 0 && !strings.Contains(sc.prefix(pf), ":") {
					// a second path-id for the same prefix
					ev = append(ev, simEvent{Op: "ann", Bot: i, A: pf, B: 1, C: 2})
					ev = append(ev, simEvent{Op: "wd", Bot: i, A: pf, C: 2})
				}
			}
			if mayFlap {
				ev = append(ev, simEvent{Op: "down", Bot: i})
			}
		} else if p != nil && mayFlap {
			ev = append(ev, simEvent{Op: "up", Bot: i})
		}
		if !sc.noPeers {
			if p != nil {
				ev = append(ev, simEvent{Op: "delpeer", Bot: i})
			} else {
				ev = append(ev, simEvent{Op: "addpeer", Bot: i})
			}
		}
	}
	if !sc.noAPI {
		for pf := 0; pf < sc.npfx && pf < 1; pf++ {
			ev = append(ev, simEvent{Op: "apiadd", A: pf, B: 0}, simEvent{Op: "apiadd", A: pf, B: 1}, simEvent{Op: "apidel", A: pf})
		}
	}
	return ev
}

// route variants; MED = 100+variant identifies the variant in every RIB
func (sc *simRoutesScenario) attrs(b *simBot, pfx, variant int) ([]bgp.PathAttributeInterface, bgp.Family, bgp.NLRI) {
	prefix := netip.MustParsePrefix(sc.prefix(pfx))
	nlri, _ := bgp.NewIPAddrPrefix(prefix)
	fam := bgp.RF_IPv4_UC
	if prefix.Addr().Is6() {
		fam = bgp.RF_IPv6_UC
	}
	var as []uint32
	ebgp := b == nil || b.spec.AS != b.w.serverAS
	if b != nil && ebgp {
		as = append(as, b.spec.AS)
	}
	switch variant {
	case 0:
	case 1:
		as = append(as, 65009)
	case 2:
		as = append(as, 65002) // AS of the second eBGP bot: export loop
	case 3:
		as = append(as, 65000) // the server's own AS: import loop
	}
	attrs := []bgp.PathAttributeInterface{bgp.NewPathAttributeOrigin(0)}
	var segs []bgp.AsPathParamInterface
	if len(as) > 0 {
		segs = append(segs, bgp.NewAs4PathParam(bgp.BGP_ASPATH_ATTR_TYPE_SEQ, as))
	}
	attrs = append(attrs, bgp.NewPathAttributeAsPath(segs))
	nhIP := netip.AddrFrom4([4]byte{10, 0, 0, 200})
	if b != nil {
		nhIP = b.addr()
	}
	if fam == bgp.RF_IPv4_UC {
		nh, _ := bgp.NewPathAttributeNextHop(nhIP)
		attrs = append(attrs, nh)
	}
	attrs = append(attrs, bgp.NewPathAttributeMultiExitDisc(uint32(100+variant)))
	if b != nil && !ebgp {
		attrs = append(attrs, bgp.NewPathAttributeLocalPref(100))
	}
	if variant == 1 {
		attrs = append(attrs, bgp.NewPathAttributeCommunities([]uint32{65000<<16 | 77, 65000<<16 | 88}))
	}
	if variant == 4 && b != nil && !ebgp {
		// a reflected route that has come back: ORIGINATOR_ID is this speaker's router id (input loop,
		// RFC 4456 8). From an eBGP peer variant 4 is just another MED.
		oid, _ := bgp.NewPathAttributeOriginatorId(netip.MustParseAddr(b.w.routerID))
		attrs = append(attrs, oid)
	}
	return attrs, fam, nlri
}

func (sc *simRoutesScenario) updateMsg(b *simBot, pfx, variant int, pathID uint32, withdraw bool) *bgp.BGPMessage {
	attrs, fam, nlri := sc.attrs(b, pfx, variant)
	pn := bgp.PathNLRI{NLRI: nlri, ID: pathID}
	if fam == bgp.RF_IPv4_UC {
		if withdraw {
			return bgp.NewBGPUpdateMessage([]bgp.PathNLRI{pn}, nil, nil)
		}
		return bgp.NewBGPUpdateMessage(nil, attrs, []bgp.PathNLRI{pn})
	}
	if withdraw {
		un, _ := bgp.NewPathAttributeMpUnreachNLRI(fam, []bgp.PathNLRI{pn})
		return bgp.NewBGPUpdateMessage(nil, []bgp.PathAttributeInterface{un}, nil)
	}
	nh := netip.MustParseAddr("2001:db8::1")
	re, _ := bgp.NewPathAttributeMpReachNLRI(fam, []bgp.PathNLRI{pn}, nh)
	attrs = append(attrs, re)
	return bgp.NewBGPUpdateMessage(nil, attrs, nil)
}

func (sc *simRoutesScenario) mkey(bot, pfx int, id uint32) string {
	return fmt.Sprintf("%d|%d|%d", bot, pfx, id)
}

func (sc *simRoutesScenario) clearBot(bot int) {
	for k, m := range sc.model {
		if m.bot == bot {
			delete(sc.model, k)
		}
	}
}

func (sc *simRoutesScenario) Apply(w *simWorld, e simEvent) {
	sc.ops++
	switch e.Op {
	case "ann":
		b := w.bots[e.Bot]
		b.sendMsg(sc.updateMsg(b, e.A, e.B, uint32(e.C), false))
		sc.model[sc.mkey(e.Bot, e.A, uint32(e.C))] = simModelRoute{e.Bot, e.A, uint32(e.C), e.B, sc.ops}
	case "wd":
		b := w.bots[e.Bot]
		b.sendMsg(sc.updateMsg(b, e.A, 0, uint32(e.C), true))
		delete(sc.model, sc.mkey(e.Bot, e.A, uint32(e.C)))
	case "down":
		w.bots[e.Bot].disconnect()
		sc.clearBot(e.Bot)
	case "up":
		b := w.bots[e.Bot]
		// after a transport loss the FSM sits in Idle for the idle-hold time
		w.advance(6 * time.Second)
		if !b.handshake() {
			w.stat("up-did-not-establish")
		}
		sc.clearBot(e.Bot)
	case "delpeer":
		w.must(w.deletePeerFor(w.bots[e.Bot]))
		sc.clearBot(e.Bot)
	case "addpeer":
		w.must(w.addPeerFor(w.bots[e.Bot]))
		w.bots[e.Bot].disconnect()
	case "apiadd":
		attrs, fam, nlri := sc.attrs(nil, e.A, e.B)
		_, err := w.s.AddPath(apiutil.AddPathRequest{Paths: []*apiutil.Path{{Family: fam, Nlri: nlri, Attrs: attrs}}})
		w.must(err)
		sc.local[sc.prefix(e.A)] = e.B
	case "apidel":
		attrs, fam, nlri := sc.attrs(nil, e.A, 0)
		_ = w.s.DeletePath(apiutil.DeletePathRequest{Paths: []*apiutil.Path{{Family: fam, Nlri: nlri, Attrs: attrs}}})
		delete(sc.local, sc.prefix(e.A))
	default:
		panic("unknown event " + e.Op)
	}
	w.settle()
	w.advance(time.Second)
	sc.foldNew(w)
}

func (sc *simRoutesScenario) Key(w *simWorld) string { return w.stateKey() }

// expectedExport computes, from scratch, what the daemon should currently be advertising to b.
func (sc *simRoutesScenario) expectedExport(w *simWorld, b *simBot, p *peer) (map[string]string, map[string][]string) {
	exp := map[string]string{}
	eligible := map[string][]string{} // per prefix, for ADD-PATH peers: canonical forms of all eligible paths
	b.mu.Lock()
	opts := b.opts
	b.mu.Unlock()
	for _, f := range p.negotiatedRFList() {
		addpath := p.isAddPathSendEnabled(f)
		for _, path := range w.s.getPossibleBest(p, f) {
			out := w.s.filterpath(p, path, nil)
			if out == nil || out.IsWithdraw {
				continue
			}
			// the daemon serialises under ITS side of the negotiated options (send <-> receive)
			srvOpts := simMirrorOpts(opts)
			for _, m := range table.CreateUpdateMsgFromPaths([]*table.Path{out}, srvOpts) {
				buf, err := m.Serialize(srvOpts)
				if err != nil {
					w.violate("C01:expected-route-unserialisable", "route %v for %s cannot be serialised: %v", out, b.spec.Name, err)
					continue
				}
				pm, err := bgp.ParseBGPMessage(buf, opts)
				if err != nil {
					w.violate("C01:expected-route-unparsable", "route %v for %s: %v", out, b.spec.Name, err)
					continue
				}
				if addpath {
					tmp := map[string]string{}
					simFold(tmp, pm)
					for k, v := range tmp {
						pk := k[:strings.LastIndex(k, "|")]
						eligible[pk] = append(eligible[pk], v)
					}
				} else {
					simFold(exp, pm)
				}
			}
		}
	}
	return exp, eligible
}

func (sc *simRoutesScenario) Check(w *simWorld, last *simEvent) {
	if sc.oracle == "c01" || sc.oracle == "both" {
		sc.checkExport(w, last)
	}
	if sc.oracle == "c02" || sc.oracle == "both" {
		sc.checkRib(w, last)
	}
}

func (sc *simRoutesScenario) checkExport(w *simWorld, last *simEvent) {
	for _, b := range w.bots {
		p := w.peer(b)
		if p == nil || p.State() != bgp.BGP_FSM_ESTABLISHED || !b.connected() {
			continue
		}
		for _, rx := range b.rxAll() {
			if rx.Err != "" {
				w.violate("C01:bot-cannot-parse", "%s received a message it cannot parse under the negotiated options: %s raw=%x", b.spec.Name, rx.Err, rx.Raw)
			}
		}
		exp, eligible := sc.expectedExport(w, b, p)
		w.stat("export-compared")
		sendMax := int(p.getAddPathSendMax(bgp.RF_IPv4_UC))
		view := map[string]string{}
		apView := map[string][]string{}
		for k, v := range b.view {
			fam := k[:strings.Index(k, "|")]
			if fam == bgp.RF_IPv4_UC.String() && p.isAddPathSendEnabled(bgp.RF_IPv4_UC) {
				pk := k[:strings.LastIndex(k, "|")]
				apView[pk] = append(apView[pk], v)
				continue
			}
			view[k] = v
		}
		if a, e := simViewString(view), simViewString(exp); a != e {
			kind := "C01:view-differs-from-export"
			detail := simDiff(view, exp)
			w.violate(kind+":"+detail.class, "%s (%s) holds\n%s but the from-scratch export of the Loc-RIB is\n%s%s", b.spec.Name, sc.cfg, a, e, detail.text)
		}
		if len(exp) > 0 {
			w.stat("export-nonempty")
		}
		// ADD-PATH: advertised subset of eligible, size = min(send-max, eligible), distinct ids
		keys := map[string]bool{}
		for k := range eligible {
			keys[k] = true
		}
		for k := range apView {
			keys[k] = true
		}
		for k := range keys {
			adv, el := apView[k], eligible[k]
			sort.Strings(adv)
			sort.Strings(el)
			w.stat("addpath-prefix-compared")
			want := len(el)
			if want > sendMax {
				want = sendMax
			}
			if len(adv) != want {
				w.violate("C01:addpath-count", "%s: prefix %s: %d paths advertised, %d eligible, send-max %d\nadvertised=%v\neligible=%v", b.spec.Name, k, len(adv), len(el), sendMax, adv, el)
				continue
			}
			for _, a := range adv {
				found := false
				for _, e := range el {
					if a == e {
						found = true
					}
				}
				if !found {
					w.violate("C01:addpath-advertised-not-eligible", "%s: prefix %s: advertised %s is not among the eligible paths %v", b.spec.Name, k, a, el)
				}
			}
		}
	}
}

type simDiffResult struct{ class, text string }

func simDiff(have, want map[string]string) simDiffResult {
	var extra, missing, differ []string
	for k, v := range have {
		if wv, ok := want[k]; !ok {
			extra = append(extra, k)
		} else if wv != v {
			differ = append(differ, k)
		}
	}
	for k := range want {
		if _, ok := have[k]; !ok {
			missing = append(missing, k)
		}
	}
	sort.Strings(extra)
	sort.Strings(missing)
	sort.Strings(differ)
	var cls []string
	if len(extra) > 0 {
		cls = append(cls, "stale-route-still-advertised")
	}
	if len(missing) > 0 {
		cls = append(cls, "eligible-route-missing")
	}
	if len(differ) > 0 {
		cls = append(cls, "attributes-differ")
	}
	return simDiffResult{strings.Join(cls, "+"), fmt.Sprintf("extra=%v missing=%v differ=%v", extra, missing, differ)}
}

// ---- C02: RIB contents against the model ----

func (sc *simRoutesScenario) checkRib(w *simWorld, last *simEvent) {
	// Adj-RIB-In of every peer == what the bot announced on the current session
	for i, b := range w.bots {
		p := w.peer(b)
		if p == nil {
			continue
		}
		want := map[string]string{}
		for _, m := range sc.model {
			if m.bot != i {
				continue
			}
			_, fam, nlri := sc.attrs(b, m.pfx, m.variant)
			want[fmt.Sprintf("%s|%s|%d", fam, nlri, m.pathID)] = fmt.Sprintf("med=%d", 100+m.variant)
		}
		have := map[string]string{}
		nAcc := 0
		for _, path := range p.adjRibIn.PathList(p.configuredRFlist(), false) {
			med, _ := path.GetMed()
			have[fmt.Sprintf("%s|%s|%d", path.GetFamily(), path.GetNlri(), path.RemoteID())] = fmt.Sprintf("med=%d", med)
			if !path.IsRejected() {
				nAcc++
			}
		}
		w.stat("adjin-compared")
		if a, e := simViewString(have), simViewString(want); a != e {
			d := simDiff(have, want)
			w.violate("C02:adj-rib-in-differs-from-model:"+d.class, "Adj-RIB-In of %s holds\n%s but the bot announced (current session, un-withdrawn)\n%s%s", b.spec.Name, a, e, d.text)
		}
		if c := p.adjRibIn.Count(p.configuredRFlist()); c != len(have) {
			w.violate("C02:adj-rib-in-count", "%s: Count()=%d but %d paths are listed", b.spec.Name, c, len(have))
		}
		if c := p.adjRibIn.Accepted(p.configuredRFlist()); c != nAcc {
			w.violate("C02:adj-rib-in-accepted-counter", "%s: Accepted()=%d but %d listed paths are not rejected", b.spec.Name, c, nAcc)
		}
	}
	// Loc-RIB (global) == accepted model entries of non-RS bots + local routes; RS RIB == RS bots
	wantG, wantRS := map[string]string{}, map[string]string{}
	for _, m := range sc.model {
		b := w.bots[m.bot]
		if m.variant == 3 { // contains the server's AS: rejected on input (for every peer type)
			continue
		}
		if m.variant == 4 && b.spec.AS == w.serverAS { // iBGP: ORIGINATOR_ID is the local router id
			continue
		}
		_, fam, nlri := sc.attrs(b, m.pfx, m.variant)
		k := fmt.Sprintf("%s|%s|%s|%d", fam, nlri, b.addr(), m.pathID)
		if sc.isRS(b) {
			wantRS[k] = fmt.Sprintf("med=%d", 100+m.variant)
		} else {
			wantG[k] = fmt.Sprintf("med=%d", 100+m.variant)
		}
	}
	for pfx, v := range sc.local {
		fam := bgp.RF_IPv4_UC
		if strings.Contains(pfx, ":") {
			fam = bgp.RF_IPv6_UC
		}
		wantG[fmt.Sprintf("%s|%s|local|0", fam, pfx)] = fmt.Sprintf("med=%d", 100+v)
	}
	sc.compareRib(w, "Loc-RIB", w.s.globalRib, wantG)
	sc.compareRib(w, "RS-RIB", w.s.rsRib, wantRS)
}

func (sc *simRoutesScenario) isRS(b *simBot) bool {
	n := b.w.defaultNeighbor(b.spec)
	return n.RouteServer.Config.RouteServerClient
}

func (sc *simRoutesScenario) compareRib(w *simWorld, name string, tm *table.TableManager, want map[string]string) {
	have := map[string]string{}
	dup := false
	for _, r := range w.ribDump(tm) {
		k := fmt.Sprintf("%s|%s|%s|%d", r.Fam, r.Prefix, r.Src, r.RID)
		if _, ok := have[k]; ok {
			dup = true
		}
		med := "?"
		for _, part := range strings.Split(r.Attrs, ",") {
			if strings.HasPrefix(part, "004:") { // MULTI_EXIT_DISC
				raw := part[len(part)-8:]
				var v uint32
				fmt.Sscanf(raw, "%08x", &v)
				med = fmt.Sprint(v)
			}
		}
		have[k] = "med=" + med
	}
	w.stat(name + "-compared")
	if dup {
		w.violate("C02:duplicate-path-per-source-and-pathid:"+name, "%s holds two paths for one (destination, source, path-id):\n%v", name, w.ribDump(tm))
	}
	if a, e := simViewString(have), simViewString(want); a != e {
		d := simDiff(have, want)
		w.violate("C02:"+name+"-differs-from-model:"+d.class, "%s holds\n%s but the model (latest un-withdrawn, accepted routes of live sessions + local routes) is\n%s%s", name, a, e, d.text)
	}
	// table summaries agree with the listed content
	if tm != nil {
		for _, f := range tm.GetRFlist() {
			t, ok := tm.GetTable(f)
			if !ok {
				continue
			}
			info := t.Info()
			nd, np := 0, 0
			for _, d := range t.GetDestinations() {
				// a destination without paths may linger (it keeps local path-ids allocated);
				// summaries count destinations that hold at least one path
				if n := len(d.GetAllKnownPathList()); n > 0 {
					nd++
					np += n
				}
			}
			if info.NumDestination != nd || info.NumPath != np {
				w.violate("C02:table-info-disagrees:"+name, "%s %s: Info() says %d destinations / %d paths, listing has %d / %d", name, f, info.NumDestination, info.NumPath, nd, np)
			}
		}
	}
	_ = context.Background
}

// simMirrorOpts turns the bot's marshalling options into the daemon's: ADD-PATH send and receive swap.
func simMirrorOpts(o *bgp.MarshallingOption) *bgp.MarshallingOption {
	if o == nil {
		return nil
	}
	m := *o
	m.AddPath = map[bgp.Family]bgp.BGPAddPathMode{}
	for f, mode := range o.AddPath {
		var x bgp.BGPAddPathMode
		if mode&bgp.BGP_ADD_PATH_SEND != 0 {
			x |= bgp.BGP_ADD_PATH_RECEIVE
		}
		if mode&bgp.BGP_ADD_PATH_RECEIVE != 0 {
			x |= bgp.BGP_ADD_PATH_SEND
		}
		m.AddPath[f] = x
	}
	return &m
}
