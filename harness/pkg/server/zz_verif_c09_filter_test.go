package server

// C09 part "filter" — loop prevention and split horizon decisions on the real daemon.
//
// One synctest bubble per case: a real BgpServer with nine ESTABLISHED peers (two eBGP, one eBGP with
// replace-peer-as, two iBGP non-clients, two route-reflector clients, two route-server clients), brought up
// through the real FSM over in-memory connections (zz_verif_common_sim_test.go). The source announces one
// route through a real UPDATE (or the API for a local route); after quiescence the harness reads
//   - the Loc-RIB (global / route-server) and the source's Adj-RIB-In     (was the route used?),
//   - every byte each other peer was sent                                 (was it advertised, with what?),
//   - (*BgpServer).filterpath(peer, path, nil) for every peer             (same decision, white box; the
//     stored path is serialised before and after),
// and compares with the rule table below (property text, RFC 4271 9.1.2 / 9.2, RFC 4456 8, RFC 7947).

import (
	"bytes"
	"context"
	"encoding/hex"
	"fmt"
	"net/netip"
	"runtime/debug"
	"sort"
	"strings"
	"testing"
	"testing/synctest"
	"time"

	api "github.com/osrg/gobgp/v4/api"
	"github.com/osrg/gobgp/v4/internal/pkg/table"
	"github.com/osrg/gobgp/v4/internal/verif/vr"
	"github.com/osrg/gobgp/v4/pkg/apiutil"
	"github.com/osrg/gobgp/v4/pkg/config/oc"
	"github.com/osrg/gobgp/v4/pkg/packet/bgp"
)

const (
	c09fLocalAS  = 65000 // the daemon's AS (its member-AS in the confederation world)
	c09fConfedID = 100   // confederation identifier in the confederation world
)

const (
	c09fKLocal = iota
	c09fKEBGP
	c09fKIBGP
	c09fKClient
	c09fKRS
	c09fKEBGPReplace // eBGP peer with replace-peer-as
	c09fKConfed      // peer in another member-AS of the confederation
)

var c09fKindNames = []string{"local", "ebgp", "ibgp-nonclient", "rr-client", "rs-client", "ebgp-replace-peer-as", "confed-member"}

var (
	c09fRouterID  = netip.MustParseAddr("10.0.0.254")
	c09fClusterID = netip.MustParseAddr("10.9.9.9")
	c09fOtherCID  = netip.MustParseAddr("10.8.8.8")
	c09fOtherRID  = netip.MustParseAddr("7.7.7.7")
	c09fLocalNH   = netip.MustParseAddr("10.0.0.200")
)

type c09fPeer struct {
	Name string
	Kind int
	AS   uint32
	IP   byte
}

type c09fShape struct {
	Name     string
	CSeq     []uint32 // AS_CONFED_SEQUENCE members (after the source's member-AS when the source is a confederation member)
	Seq      []uint32 // AS_SEQUENCE members (after the source's own AS when the source is an eBGP-type peer)
	Set      []uint32 // optional trailing AS_SET
	Thorough bool
}

func (w *c09fWorld) cid() netip.Addr {
	if w.DefaultCID {
		return c09fRouterID
	}
	return c09fClusterID
}

type c09fWorld struct {
	Name   string
	Confed bool
	// DefaultCID: the route-reflector clients are configured WITHOUT a cluster-id; the effective cluster-id
	// is then the router id (RFC 4456 7), for reflecting and for the input loop check alike
	DefaultCID bool
	Peers      []c09fPeer // index 0 is the local source (API); 1.. are bots in this order
	Shapes []c09fShape
}

var c09fWorlds = []c09fWorld{
	{
		Name: "plain",
		Peers: []c09fPeer{
			{"local", c09fKLocal, 0, 0},
			{"e1", c09fKEBGP, 65001, 1},
			{"e2", c09fKEBGP, 65002, 2},
			{"i1", c09fKIBGP, c09fLocalAS, 3},
			{"i2", c09fKIBGP, c09fLocalAS, 4},
			{"c1", c09fKClient, c09fLocalAS, 5},
			{"c2", c09fKClient, c09fLocalAS, 6},
			{"s1", c09fKRS, 65011, 7},
			{"s2", c09fKRS, 65012, 8},
			{"e3", c09fKEBGPReplace, 65003, 9},
		},
		Shapes: []c09fShape{
			{"plain", nil, []uint32{65009}, nil, false},
			{"has-e2-as", nil, []uint32{65002}, nil, false},
			{"has-e1-as", nil, []uint32{65009, 65001}, nil, false},
			{"has-e2-as-in-set", nil, []uint32{65009}, []uint32{65002, 65008}, false},
			{"own-as-1x", nil, []uint32{65009, c09fLocalAS}, nil, false},
			{"own-as-2x", nil, []uint32{c09fLocalAS, 65009, c09fLocalAS}, nil, false},
			{"has-e3-as", nil, []uint32{65003}, nil, false},
			{"has-s2-as", nil, []uint32{65012}, nil, false},
			{"own-as-3x", nil, []uint32{c09fLocalAS, c09fLocalAS, c09fLocalAS}, nil, true},
			{"own-as-in-set", nil, []uint32{65009}, []uint32{c09fLocalAS, 65008}, true},
			{"has-e1-e2-as", nil, []uint32{65002, 65001}, nil, true},
			{"no-suffix", nil, nil, nil, true},
		},
	},
	{
		Name: "default-cluster-id", DefaultCID: true,
		Peers: []c09fPeer{
			{"local", c09fKLocal, 0, 0},
			{"e1", c09fKEBGP, 65001, 1},
			{"i1", c09fKIBGP, c09fLocalAS, 3},
			{"c1", c09fKClient, c09fLocalAS, 5},
			{"c2", c09fKClient, c09fLocalAS, 6},
		},
		Shapes: []c09fShape{
			{"plain", nil, []uint32{65009}, nil, false},
		},
	},
	{
		Name: "confed", Confed: true,
		Peers: []c09fPeer{
			{"local", c09fKLocal, 0, 0},
			{"e1", c09fKEBGP, 65001, 1},
			{"e2", c09fKEBGP, 65002, 2},
			{"m1", c09fKConfed, 65100, 3},
			{"m2", c09fKConfed, 65101, 4},
			{"i1", c09fKIBGP, c09fLocalAS, 5},
			{"c1", c09fKClient, c09fLocalAS, 6},
		},
		Shapes: []c09fShape{
			{"plain", nil, []uint32{65009}, nil, false},
			{"has-confed-id", nil, []uint32{65009, c09fConfedID}, nil, false},
			{"own-member-as-in-seq", nil, []uint32{65009, c09fLocalAS}, nil, false},
			{"own-member-as-in-confed-seq", []uint32{c09fLocalAS}, []uint32{65009}, nil, false},
			{"has-m2-as-in-confed-seq", []uint32{65101}, []uint32{65009}, nil, false},
			{"has-e2-as", nil, []uint32{65002}, nil, false},
			{"has-m2-as-in-seq", nil, []uint32{65009, 65101}, nil, false},
			{"no-suffix", nil, nil, nil, false},
			{"confed-id-in-confed-seq", []uint32{c09fConfedID}, []uint32{65009}, nil, true},
			{"has-e2-as-in-set", nil, []uint32{65009}, []uint32{65002, 65008}, true},
		},
	},
}

type c09fCase struct {
	World int `json:"world"`        // index in c09fWorlds
	Allow int `json:"allow_own_as"` // allow-own-as on every neighbour
	Src   int `json:"src"`          // index in the world's peers
	Shape int `json:"shape"`
	Orig  int `json:"orig"` // ORIGINATOR_ID 0 absent 1 = local router-id 2 other
	CL    int `json:"cl"`   // CLUSTER_LIST 0 absent 1 without local cluster-id 2 with local cluster-id
}

func (c c09fCase) world() *c09fWorld { return &c09fWorlds[c.World] }
func (c c09fCase) src() c09fPeer     { return c.world().Peers[c.Src] }

func (c c09fCase) String() string {
	return fmt.Sprintf("{world=%s allow-own-as=%d src=%s aspath=%s originator=%s cluster-list=%s}", c.world().Name, c.Allow, c.src().Name, c.world().Shapes[c.Shape].Name,
		[]string{"absent", "local-router-id", "other"}[c.Orig], []string{"absent", "without-local-cluster-id", "with-local-cluster-id"}[c.CL])
}

func c09fEBGPType(k int) bool { return k == c09fKEBGP || k == c09fKRS || k == c09fKEBGPReplace }

// valid: confederation segments can only come from confederation members and iBGP peers
func (c c09fCase) valid() bool {
	sh := c.world().Shapes[c.Shape]
	k := c.src().Kind
	return len(sh.CSeq) == 0 || k == c09fKConfed || k == c09fKIBGP || k == c09fKClient
}

// the AS numbers of the announced route by segment: AS_CONFED_SEQUENCE, AS_SEQUENCE, AS_SET
func (c c09fCase) asns() (cseq, seq, set []uint32) {
	p, sh := c.src(), c.world().Shapes[c.Shape]
	if p.Kind == c09fKConfed {
		cseq = append(cseq, p.AS)
	}
	cseq = append(cseq, sh.CSeq...)
	if c09fEBGPType(p.Kind) {
		seq = append(seq, p.AS)
	}
	seq = append(seq, sh.Seq...)
	return cseq, seq, sh.Set
}

func c09fContains(l []uint32, a uint32) bool {
	for _, x := range l {
		if x == a {
			return true
		}
	}
	return false
}

func c09fCount(a uint32, ls ...[]uint32) int {
	n := 0
	for _, l := range ls {
		for _, x := range l {
			if x == a {
				n++
			}
		}
	}
	return n
}

// ---------------------------------------------------------------------------------------------
// rule table

const (
	c09fMust = iota
	c09fMustNot
	c09fOpen
)

// c09fUsed: may the received route enter the decision process?
func c09fUsed(c c09fCase) (int, string) {
	k := c.src().Kind
	if k == c09fKLocal {
		return c09fMust, "locally originated routes are not subject to the receive-side checks"
	}
	cseq, seq, set := c.asns()
	n := c09fCount(c09fLocalAS, cseq, seq, set)
	if c.world().Confed {
		// RFC 5065 4: the confederation identifier counts as the own AS
		id := c09fCount(c09fConfedID, cseq, seq, set)
		if c09fEBGPType(k) {
			if id > c.Allow {
				return c09fMustNot, fmt.Sprintf("received route contains the confederation identifier %d times, allow-own-as is %d", id, c.Allow)
			}
			if n > 0 {
				// towards peers outside the confederation the router is AS 100; whether its member-AS number inside an
				// external AS_PATH counts as "the local AS" is not said by the property
				return c09fOpen, "member-AS number in a route from outside the confederation"
			}
			return c09fMust, "no loop indication"
		}
		n += id
	}
	if n > c.Allow {
		return c09fMustNot, fmt.Sprintf("received route contains the local AS %d times, allow-own-as is %d", n, c.Allow)
	}
	if k == c09fKIBGP || k == c09fKClient {
		if c.Orig == 1 {
			return c09fMustNot, "received route carries the local router-id as ORIGINATOR_ID"
		}
		if c.CL == 2 {
			return c09fMustNot, "received route carries the local cluster-id in its CLUSTER_LIST"
		}
	}
	return c09fMust, "no loop indication"
}

// c09fExport: must / must not / unspecified, for a route that is used.
func c09fExport(c c09fCase, tgt int) (int, string, string) {
	s, t := c.src(), c.world().Peers[tgt]
	if tgt == c.Src {
		return c09fMustNot, "back-to-source", "a route is never advertised back to the router it came from"
	}
	cseq, seq, set := c.asns()
	all := append(append([]uint32{}, seq...), set...)
	if (s.Kind == c09fKRS) != (t.Kind == c09fKRS) {
		return c09fOpen, "rs-separation", "route-server clients and ordinary peers use separate tables (not part of the property)"
	}
	ownAS := c09fContains(all, c09fLocalAS) || c09fContains(cseq, c09fLocalAS)
	switch t.Kind {
	case c09fKRS:
		if c09fContains(all, t.AS) {
			// decided by the per-client best-path selection (GetBestPath(id, as)), not by filterpath
			return c09fMustNot, "rs-client-as-in-path", "never advertised to an eBGP peer (here: route-server client) whose AS is already in the AS_PATH"
		}
		return c09fMust, "rs-client", "route-server clients get each other's routes"
	case c09fKEBGP:
		if c09fContains(all, t.AS) {
			return c09fMustNot, "ebgp-as-in-path", "never advertised to an eBGP peer whose AS is already in the AS_PATH"
		}
		return c09fMust, "ebgp", "a used route is advertised to eBGP peers"
	case c09fKConfed:
		if c09fContains(all, t.AS) {
			return c09fMustNot, "confed-member-as-in-path", "never advertised to an eBGP-type peer (here: confederation member) whose AS is already in the AS_PATH"
		}
		if c09fContains(cseq, t.AS) {
			return c09fOpen, "confed-member-as-in-confed-seq", "member-AS of the target inside AS_CONFED_SEQUENCE: RFC 5065 leaves loop detection to the receiver; not covered by the property"
		}
		return c09fMust, "confed-member", "a used route is advertised to the other member-ASes"
	case c09fKEBGPReplace:
		return c09fMust, "ebgp-replace-peer-as", "replace-peer-as rewrites the peer's AS, so the route is advertised"
	case c09fKIBGP:
		if s.Kind == c09fKIBGP {
			return c09fMustNot, "nonclient-to-nonclient", "never from a non-client iBGP peer to another non-client iBGP peer"
		}
		if ownAS {
			return c09fOpen, "own-as-in-path-to-ibgp", "route admitted through allow-own-as (or local route carrying the own AS) towards an iBGP peer: sender-side suppression is not covered by the property"
		}
		if s.Kind == c09fKClient {
			return c09fMust, "client-to-nonclient", "a client's route is reflected to non-client iBGP peers"
		}
		return c09fMust, "to-ibgp", "local, eBGP and confederation-external routes are advertised to iBGP peers"
	case c09fKClient:
		if ownAS {
			return c09fOpen, "own-as-in-path-to-ibgp", "route admitted through allow-own-as (or local route carrying the own AS) towards an iBGP peer: sender-side suppression is not covered by the property"
		}
		if s.Kind == c09fKClient {
			return c09fMust, "client-to-client", "a client's route is reflected to the other clients"
		}
		if s.Kind == c09fKIBGP {
			return c09fMust, "nonclient-to-client", "a non-client's route is reflected to clients"
		}
		return c09fMust, "to-client", "local, eBGP and confederation-external routes are advertised to clients"
	}
	return c09fOpen, "?", "?"
}

// ---------------------------------------------------------------------------------------------
// world

func c09fSpecs(wd *c09fWorld, allow int) []simBotSpec {
	var out []simBotSpec
	for _, p := range wd.Peers[1:] {
		p := p
		out = append(out, simBotSpec{Name: p.Name, IP: [4]byte{10, 0, 0, p.IP}, AS: p.AS, RouterID: [4]byte{1, 1, 1, p.IP},
			Neighbor: func(n *oc.Neighbor) {
				n.AsPathOptions.Config.AllowOwnAs = uint8(allow)
				switch p.Kind {
				case c09fKClient:
					n.RouteReflector.Config.RouteReflectorClient = true
					if !wd.DefaultCID {
						n.RouteReflector.Config.RouteReflectorClusterId = c09fClusterID
					}
				case c09fKRS:
					n.RouteServer.Config.RouteServerClient = true
				case c09fKEBGPReplace:
					n.AsPathOptions.Config.ReplacePeerAs = true
				}
			}})
	}
	return out
}

const c09fPrefix = "10.77.1.0/24"

func c09fAttrs(c c09fCase) []bgp.PathAttributeInterface {
	p := c.src()
	attrs := []bgp.PathAttributeInterface{bgp.NewPathAttributeOrigin(0)}
	cseq, seq, set := c.asns()
	var segs []bgp.AsPathParamInterface
	if len(cseq) > 0 {
		segs = append(segs, bgp.NewAs4PathParam(bgp.BGP_ASPATH_ATTR_TYPE_CONFED_SEQ, append([]uint32{}, cseq...)))
	}
	if len(seq) > 0 {
		segs = append(segs, bgp.NewAs4PathParam(bgp.BGP_ASPATH_ATTR_TYPE_SEQ, append([]uint32{}, seq...)))
	}
	if len(set) > 0 {
		segs = append(segs, bgp.NewAs4PathParam(bgp.BGP_ASPATH_ATTR_TYPE_SET, append([]uint32{}, set...)))
	}
	attrs = append(attrs, bgp.NewPathAttributeAsPath(segs))
	nhIP := c09fLocalNH
	if p.Kind != c09fKLocal {
		nhIP = netip.AddrFrom4([4]byte{10, 0, 0, p.IP})
	}
	nh, _ := bgp.NewPathAttributeNextHop(nhIP)
	attrs = append(attrs, nh, bgp.NewPathAttributeMultiExitDisc(77))
	if p.Kind == c09fKIBGP || p.Kind == c09fKClient || p.Kind == c09fKConfed || p.Kind == c09fKRS {
		// (a route-server client's route carries LOCAL_PREF too: the route server hands routes on unchanged, and
		// producing another client's copy must not take the attribute out of the stored route)
		attrs = append(attrs, bgp.NewPathAttributeLocalPref(150))
	}
	switch c.Orig {
	case 1:
		a, _ := bgp.NewPathAttributeOriginatorId(c09fRouterID)
		attrs = append(attrs, a)
	case 2:
		a, _ := bgp.NewPathAttributeOriginatorId(c09fOtherRID)
		attrs = append(attrs, a)
	}
	switch c.CL {
	case 1:
		a, _ := bgp.NewPathAttributeClusterList([]netip.Addr{c09fOtherCID})
		attrs = append(attrs, a)
	case 2:
		a, _ := bgp.NewPathAttributeClusterList([]netip.Addr{c09fOtherCID, c.world().cid()})
		attrs = append(attrs, a)
	}
	return attrs
}

type c09fSent struct {
	Announced bool
	Attrs     []bgp.PathAttributeInterface
	Raw       string
}

func c09fPathBytes(p *table.Path) []byte {
	var sb bytes.Buffer
	for _, a := range p.GetPathAttrs() {
		b, err := a.Serialize()
		if err != nil {
			sb.WriteString("ERR:" + err.Error())
		}
		sb.Write(b)
		sb.WriteByte('|')
	}
	fmt.Fprintf(&sb, "wd=%v rej=%v", p.IsWithdraw, p.IsRejected())
	return sb.Bytes()
}

func c09fRibPaths(tm *table.TableManager, prefix string) []*table.Path {
	var out []*table.Path
	if tm == nil {
		return nil
	}
	t, ok := tm.GetTable(bgp.RF_IPv4_UC)
	if !ok {
		return nil
	}
	for _, d := range t.GetDestinations() {
		for _, p := range d.GetAllKnownPathList() {
			if p.GetNlri().String() == prefix && !p.IsWithdraw {
				out = append(out, p)
			}
		}
	}
	return out
}

type c09fObs struct {
	InLocRib   bool
	AdjIn      string // "absent" | "accepted" | "rejected"
	Sent       map[int]c09fSent
	Direct     map[int]string // "nil" | "announce" | "withdraw" | "panic:..."
	Altered    map[int]string
	StoredAttr string
	Panic      string
	SetupFail  string
	// after a soft reset (in) of the source, for routes that must not be used
	SoftInRan    bool
	SoftInLocRib bool
	SoftInSent   []string
}

// c09fRun executes one case in a fresh bubble.
func c09fRun(t *testing.T, c c09fCase) (o c09fObs) {
	o.Sent = map[int]c09fSent{}
	o.Direct = map[int]string{}
	o.Altered = map[int]string{}
	wd := c.world()
	synctest.Test(t, func(t *testing.T) {
		w := &simWorld{t: t}
		if wd.Confed {
			var members []uint32
			for _, p := range wd.Peers {
				if p.Kind == c09fKConfed {
					members = append(members, p.AS)
				}
			}
			w.global = func(g *api.Global) {
				g.Confederation = &api.Confederation{Enabled: true, Identifier: c09fConfedID, MemberAsList: members}
			}
		}
		defer func() {
			if r := recover(); r != nil {
				o.Panic = fmt.Sprintf("%v\n%s", r, debug.Stack())
			}
			func() {
				defer func() {
					if r := recover(); r != nil && o.Panic == "" {
						o.Panic = fmt.Sprintf("teardown: %v\n%s", r, debug.Stack())
					}
				}()
				if w.s != nil {
					w.stop(true)
				}
			}()
		}()
		w.start()
		for _, sp := range c09fSpecs(wd, c.Allow) {
			w.addBot(sp)
		}
		w.advance(time.Second)
		for _, b := range w.bots {
			if !b.handshake() {
				o.SetupFail = "session with " + b.spec.Name + " did not establish"
				return
			}
		}
		w.advance(time.Second)
		for _, b := range w.bots {
			b.takeGroup()
		}
		// announce
		nlri, _ := bgp.NewIPAddrPrefix(netip.MustParsePrefix(c09fPrefix))
		attrs := c09fAttrs(c)
		if c.Src == 0 {
			_, err := w.s.AddPath(apiutil.AddPathRequest{Paths: []*apiutil.Path{{Family: bgp.RF_IPv4_UC, Nlri: nlri, Attrs: attrs}}})
			if err != nil {
				o.SetupFail = "AddPath: " + err.Error()
				return
			}
		} else {
			w.bots[c.Src-1].sendMsg(bgp.NewBGPUpdateMessage(nil, attrs, []bgp.PathNLRI{{NLRI: nlri}}))
		}
		w.settle()
		w.advance(time.Second)
		// what was sent
		for i, b := range w.bots {
			view := map[string]string{}
			var last *bgp.BGPUpdate
			var raw []byte
			for _, rx := range b.takeGroup() {
				simFold(view, rx.Msg)
				u := rx.Msg.Body.(*bgp.BGPUpdate)
				for _, n := range u.NLRI {
					if n.NLRI.String() == c09fPrefix {
						last, raw = u, rx.Raw
					}
				}
			}
			_, ann := view[simRouteKey(bgp.RF_IPv4_UC, nlri, 0)]
			s := c09fSent{Announced: ann}
			if ann && last != nil {
				s.Attrs = last.PathAttributes
				s.Raw = hex.EncodeToString(raw)
			}
			o.Sent[i+1] = s
		}
		// was it used
		var stored *table.Path
		srcRS := c.src().Kind == c09fKRS
		rib := w.s.globalRib
		if srcRS {
			rib = w.s.rsRib
		}
		if ps := c09fRibPaths(rib, c09fPrefix); len(ps) > 0 {
			o.InLocRib = true
			stored = ps[0]
			o.StoredAttr = simAttrCanon(stored.GetPathAttrs(), nil)
		}
		o.AdjIn = "absent"
		if c.Src > 0 {
			p := w.peer(w.bots[c.Src-1])
			for _, path := range p.adjRibIn.PathList(p.configuredRFlist(), false) {
				if path.GetNlri().String() == c09fPrefix {
					o.AdjIn = "accepted"
					if path.IsRejected() {
						o.AdjIn = "rejected"
					}
				}
			}
		}
		// white box: the same decision through (*BgpServer).filterpath
		if stored != nil {
			for i, b := range w.bots {
				p := w.peer(b)
				if p == nil || p.isRouteServerClient() != srcRS {
					// the daemon never offers a route of one table to a peer of the other: not a state to call filterpath in
					continue
				}
				before := c09fPathBytes(stored)
				func() {
					defer func() {
						if r := recover(); r != nil {
							o.Direct[i+1] = "panic:" + simCrashSite(fmt.Sprintf("panic: %v\n%s", r, debug.Stack()))
						}
					}()
					res := w.s.filterpath(p, stored, nil)
					switch {
					case res == nil:
						o.Direct[i+1] = "nil"
					case res.IsWithdraw:
						o.Direct[i+1] = "withdraw"
					default:
						o.Direct[i+1] = "announce"
					}
				}()
				if after := c09fPathBytes(stored); !bytes.Equal(before, after) {
					o.Altered[i+1] = fmt.Sprintf("before %x after %x", before, after)
				}
			}
		}
		// "are not used" is not a property of the moment of arrival: re-evaluating what the source sent
		// (soft reset in) must not bring a route in that the loop checks refused
		if used, _ := c09fUsed(c); used == c09fMustNot && c.Src > 0 && !o.InLocRib {
			src := w.bots[c.Src-1]
			if err := w.s.ResetPeer(context.Background(), &api.ResetPeerRequest{Address: src.addr().String(), Soft: true,
				Direction: api.ResetPeerRequest_DIRECTION_IN}); err != nil {
				o.SetupFail = "soft reset in: " + err.Error()
				return
			}
			w.settle()
			w.advance(time.Second)
			o.SoftInRan = true
			o.SoftInLocRib = len(c09fRibPaths(rib, c09fPrefix)) > 0
			for i, b := range w.bots {
				view := map[string]string{}
				for _, rx := range b.takeGroup() {
					simFold(view, rx.Msg)
				}
				if _, ann := view[simRouteKey(bgp.RF_IPv4_UC, nlri, 0)]; ann {
					o.SoftInSent = append(o.SoftInSent, wd.Peers[i+1].Name)
				}
			}
		}
	})
	return o
}

// ---------------------------------------------------------------------------------------------
// judging one case

type c09fWirePath struct {
	cseq, seq, set []uint32
	other          int // segments of other types (AS_CONFED_SET)
	ok             bool
}

func c09fSplitPath(attrs []bgp.PathAttributeInterface) (w c09fWirePath) {
	for _, a := range attrs {
		if ap, y := a.(*bgp.PathAttributeAsPath); y {
			w.ok = true
			for _, p := range ap.Value {
				switch p.GetType() {
				case bgp.BGP_ASPATH_ATTR_TYPE_SEQ:
					w.seq = append(w.seq, p.GetAS()...)
				case bgp.BGP_ASPATH_ATTR_TYPE_SET:
					w.set = append(w.set, p.GetAS()...)
				case bgp.BGP_ASPATH_ATTR_TYPE_CONFED_SEQ:
					w.cseq = append(w.cseq, p.GetAS()...)
				default:
					w.other++
				}
			}
		}
	}
	return
}

func (w c09fWirePath) String() string {
	return fmt.Sprintf("CONFED_SEQ%v SEQ%v SET%v", w.cseq, w.seq, w.set)
}

func (w c09fWirePath) is(cseq, seq, set []uint32) bool {
	return w.ok && w.other == 0 && c09fU32Eq(w.cseq, cseq) && c09fU32Eq(w.seq, seq) && c09fSortedEq(w.set, set)
}

func c09fAttr(attrs []bgp.PathAttributeInterface, t bgp.BGPAttrType) bgp.PathAttributeInterface {
	for _, a := range attrs {
		if a.GetType() == t {
			return a
		}
	}
	return nil
}

func c09fU32Eq(a, b []uint32) bool {
	if len(a) != len(b) {
		return false
	}
	for i := range a {
		if a[i] != b[i] {
			return false
		}
	}
	return true
}

func c09fSortedEq(a, b []uint32) bool {
	a, b = append([]uint32{}, a...), append([]uint32{}, b...)
	sort.Slice(a, func(i, j int) bool { return a[i] < a[j] })
	sort.Slice(b, func(i, j int) bool { return b[i] < b[j] })
	return c09fU32Eq(a, b)
}

func c09fJudge(r *vr.Report, c c09fCase, o c09fObs) {
	wd := c.world()
	src := c.src()
	wn := "world=" + wd.Name + ":"
	viol := func(key, format string, a ...any) {
		r.Violationf("C09:filter:"+key, c, "%s: %s", c, fmt.Sprintf(format, a...))
	}
	if o.SetupFail != "" {
		panic("C09 engine: " + o.SetupFail)
	}
	if o.Panic != "" {
		viol("panic:"+simCrashSite(o.Panic), "panic in the daemon: %s", simTail(o.Panic, 1500))
		return
	}
	var got []string
	gotClient := false
	for i := 1; i < len(wd.Peers); i++ {
		if o.Sent[i].Announced {
			got = append(got, wd.Peers[i].Name)
			if wd.Peers[i].Kind == c09fKClient {
				gotClient = true
			}
		}
	}
	used, why := c09fUsed(c)
	r.NT(fmt.Sprint(c))
	switch used {
	case c09fOpen:
		r.Outcome(fmt.Sprintf("%simport:unspecified(%s):used=%v", wn, why, o.InLocRib))
		return
	case c09fMustNot:
		cls := "own-as-beyond-allow-own-as"
		if strings.Contains(why, "ORIGINATOR_ID") {
			cls = "originator-id-is-local-router-id"
		} else if strings.Contains(why, "cluster-id") {
			cls = "local-cluster-id-in-cluster-list"
		} else if strings.Contains(why, "confederation identifier") {
			cls = "confed-id-beyond-allow-own-as"
		}
		r.Outcome(wn + "import:must-not-be-used:" + cls + ":src=" + c09fKindNames[src.Kind])
		if o.InLocRib || len(got) > 0 {
			viol("import:"+cls+":route-used", "%s — yet the route is in the Loc-RIB=%v (Adj-RIB-In: %s) and was advertised to %v", why, o.InLocRib, o.AdjIn, got)
			if cls == "local-cluster-id-in-cluster-list" && gotClient {
				// the receive side let it in; the send side is the last line of defence (RFC 4456 8)
				viol("export:route-with-local-cluster-id-reflected-to-client", "%s — and it was even reflected to route-reflector clients: %v", why, got)
			}
		}
		if o.SoftInRan {
			r.Outcome(wn + "import:must-not-be-used:" + cls + ":after-soft-reset-in")
			if o.SoftInLocRib || len(o.SoftInSent) > 0 {
				viol("import:"+cls+":route-used-after-soft-reset-in", "%s — refused on arrival, but after a soft reset (in) of the source the route is in the Loc-RIB=%v and was advertised to %v", why, o.SoftInLocRib, o.SoftInSent)
			}
		}
		return
	}
	r.Outcome(wn + "import:usable:src=" + c09fKindNames[src.Kind])
	if !o.InLocRib {
		viol("import:valid-route-not-used:src="+c09fKindNames[src.Kind], "%s — yet the route is not in the Loc-RIB (Adj-RIB-In: %s)", why, o.AdjIn)
		return
	}
	sentC, sentSeq, sentSet := c.asns()
	if c.Allow > 0 && (c09fCount(c09fLocalAS, sentC, sentSeq, sentSet) > 0 || (wd.Confed && c09fCount(c09fConfedID, sentC, sentSeq, sentSet) > 0)) {
		r.Outcome(wn + "import:own-as-within-allow-own-as:used")
	}
	// the AS this daemon shows to peers outside the confederation
	outerAS := uint32(c09fLocalAS)
	if wd.Confed {
		outerAS = c09fConfedID
	}
	for tgt := 1; tgt < len(wd.Peers); tgt++ {
		tp := wd.Peers[tgt]
		mode, clause, text := c09fExport(c, tgt)
		s := o.Sent[tgt]
		pair := fmt.Sprintf("src=%s:tgt=%s", c09fKindNames[src.Kind], c09fKindNames[tp.Kind])
		// the white-box decision must agree with the wire
		d, called := o.Direct[tgt]
		if called {
			if strings.HasPrefix(d, "panic:") {
				viol("panic:"+d[6:], "filterpath(%s) panicked at %s", tp.Name, d[6:])
			} else if (d == "announce") != s.Announced && mode != c09fOpen && clause != "rs-client-as-in-path" {
				viol("filterpath-vs-wire:"+pair, "filterpath(%s, path, nil) says %s but on the wire announced=%v", tp.Name, d, s.Announced)
			}
			if a, bad := o.Altered[tgt]; bad {
				viol("stored-route-altered-by-filterpath:tgt="+c09fKindNames[tp.Kind], "filterpath(%s) altered the stored route: %s", tp.Name, a)
			}
		}
		switch mode {
		case c09fOpen:
			r.Outcome(fmt.Sprintf("%sexport:unspecified:%s:advertised=%v", wn, clause, s.Announced))
			continue
		case c09fMustNot:
			r.Outcome(wn + "export:must-not:" + clause)
			if s.Announced {
				viol("export:"+clause+":"+pair, "%s — yet %s was sent the route (%s)", text, tp.Name, simAttrCanon(s.Attrs, nil))
			}
			continue
		}
		r.Outcome(wn + "export:must:" + clause)
		if !s.Announced {
			viol("export:not-advertised:"+clause+":"+pair, "%s — yet %s was sent nothing (filterpath: %s)", text, tp.Name, d)
			continue
		}
		// attribute clauses on the wire
		tk := "tgt=" + c09fKindNames[tp.Kind]
		wp := c09fSplitPath(s.Attrs)
		lp := c09fAttr(s.Attrs, bgp.BGP_ATTR_TYPE_LOCAL_PREF)
		med := c09fAttr(s.Attrs, bgp.BGP_ATTR_TYPE_MULTI_EXIT_DISC)
		oid := c09fAttr(s.Attrs, bgp.BGP_ATTR_TYPE_ORIGINATOR_ID)
		cl := c09fAttr(s.Attrs, bgp.BGP_ATTR_TYPE_CLUSTER_LIST)
		var nh netip.Addr
		if a := c09fAttr(s.Attrs, bgp.BGP_ATTR_TYPE_NEXT_HOP); a != nil {
			nh = a.(*bgp.PathAttributeNextHop).Value
		}
		srcNH := c09fLocalNH
		if c.Src > 0 {
			srcNH = netip.AddrFrom4([4]byte{10, 0, 0, src.IP})
		}
		switch tp.Kind {
		case c09fKEBGP, c09fKEBGPReplace:
			want := append([]uint32{outerAS}, sentSeq...)
			if tp.Kind == c09fKEBGPReplace {
				for i := range want {
					if want[i] == tp.AS {
						want[i] = outerAS
					}
				}
				if c09fContains(wp.seq, tp.AS) || c09fContains(wp.set, tp.AS) {
					viol("wire:replace-peer-as-not-applied:"+tk, "replace-peer-as: %s was sent an AS_PATH that still contains its AS: %s", tp.Name, wp)
				}
				r.Outcome(wn + "wire:ebgp-replace-peer-as:aspath-checked")
			}
			if !wp.is(nil, want, sentSet) {
				viol("wire:aspath:"+tk, "to eBGP the local AS is prepended exactly once and confederation segments are removed: want SEQ%v SET%v, %s was sent %s", want, sentSet, tp.Name, wp)
			}
			if lp != nil {
				viol("wire:localpref-sent:"+tk, "LOCAL_PREF is removed towards eBGP (postFilterpath) — %s was sent %v", tp.Name, lp)
			}
			if nh != c09fRouterID && !(c.Src == 0 && nh == c09fLocalNH) {
				viol("wire:nexthop:"+tk, "to eBGP the next hop is the session's local address 10.0.0.254 — %s was sent %v", tp.Name, nh)
			}
			if c.Src != 0 && med != nil {
				viol("wire:foreign-med-sent:"+tk, "foreign MED is removed towards eBGP — %s was sent %v", tp.Name, med)
			}
			if c.Src == 0 && med == nil {
				viol("wire:local-med-dropped:"+tk, "MED of a locally originated route is kept towards eBGP — %s was sent none", tp.Name)
			}
			if oid != nil || cl != nil {
				viol("wire:rr-attributes-sent:"+tk, "ORIGINATOR_ID/CLUSTER_LIST are removed towards eBGP — %s was sent %v %v", tp.Name, oid, cl)
			}
			r.Outcome(wn + "wire:ebgp:attrs-checked")
		case c09fKConfed:
			// RFC 5065 4.1 (b): own member-AS prepended in the AS_CONFED_SEQUENCE, nothing removed; LOCAL_PREF, MED and
			// next hop may be kept (5.3)
			if !wp.is(append([]uint32{c09fLocalAS}, sentC...), sentSeq, sentSet) {
				viol("wire:aspath:"+tk, "to a confederation member the member-AS is prepended once in the AS_CONFED_SEQUENCE: want CONFED_SEQ%v SEQ%v SET%v, %s was sent %s",
					append([]uint32{c09fLocalAS}, sentC...), sentSeq, sentSet, tp.Name, wp)
			}
			if nh != c09fRouterID && nh != srcNH {
				viol("wire:nexthop:"+tk, "to a confederation member the next hop is self or unchanged — %s was sent %v", tp.Name, nh)
			}
			if oid != nil || cl != nil {
				viol("wire:rr-attributes-sent:"+tk, "ORIGINATOR_ID/CLUSTER_LIST are removed towards eBGP-type peers — %s was sent %v %v", tp.Name, oid, cl)
			}
			r.Outcome(fmt.Sprintf("%swire:confed-member:attrs-checked(localpref-sent=%v,med-sent=%v,nexthop-self=%v)", wn, lp != nil, med != nil, nh == c09fRouterID))
		case c09fKIBGP, c09fKClient:
			if !wp.is(sentC, sentSeq, sentSet) {
				viol("wire:aspath:"+tk, "to iBGP the AS_PATH is unchanged: want CONFED_SEQ%v SEQ%v SET%v, %s was sent %s", sentC, sentSeq, sentSet, tp.Name, wp)
			}
			if lp == nil {
				viol("wire:localpref-missing:"+tk, "to iBGP LOCAL_PREF is present — %s was sent none", tp.Name)
			}
			if nh != srcNH {
				viol("wire:nexthop:"+tk, "to iBGP the next hop is unchanged (%v) — %s was sent %v", srcNH, tp.Name, nh)
			}
			if tp.Kind == c09fKClient {
				if oid == nil {
					viol("wire:originator-id-missing:"+tk, "to a route-reflector client ORIGINATOR_ID is kept or set — %s was sent none", tp.Name)
				} else if c.Orig == 2 && oid.(*bgp.PathAttributeOriginatorId).Value != c09fOtherRID {
					viol("wire:originator-id-replaced:"+tk, "an existing ORIGINATOR_ID is kept — %s was sent %v", tp.Name, oid)
				}
				if cl == nil || len(cl.(*bgp.PathAttributeClusterList).Value) == 0 || cl.(*bgp.PathAttributeClusterList).Value[0] != wd.cid() {
					viol("wire:cluster-id-not-prepended:"+tk, "to a route-reflector client the local cluster-id is prepended — %s was sent %v", tp.Name, cl)
				}
				r.Outcome(wn + "wire:rr-client:attrs-checked")
			} else {
				// reflection towards a non-client (ORIGINATOR_ID / CLUSTER_LIST) is judged in part "attrs"
				r.Outcome(wn + "wire:ibgp-nonclient:attrs-checked")
				if src.Kind == c09fKClient {
					r.Outcome(fmt.Sprintf("%swire:client-route-reflected-to-nonclient:originator-id-sent=%v:cluster-list-sent=%v", wn, oid != nil, cl != nil))
				}
			}
		case c09fKRS:
			// unchanged: exactly the attributes the source sent
			want := simAttrCanon(c09fAttrs(c), nil)
			if have := simAttrCanon(s.Attrs, nil); have != want {
				viol("wire:rs-client-route-changed:"+tk, "to a route-server client the route is unchanged: sent by the source %s, %s was sent %s", want, tp.Name, have)
			}
			r.Outcome(wn + "wire:rs-client:attrs-checked")
		}
	}
}

func c09fCases(thorough bool) []c09fCase {
	var out []c09fCase
	for wi := range c09fWorlds {
		wd := &c09fWorlds[wi]
		allows := []int{0, 1}
		var srcs []int
		if thorough {
			allows = []int{0, 1, 2}
			for i := range wd.Peers {
				srcs = append(srcs, i)
			}
		} else {
			// one source of each kind
			seen := map[int]bool{}
			for i, p := range wd.Peers {
				if !seen[p.Kind] && p.Kind != c09fKEBGPReplace {
					seen[p.Kind] = true
					srcs = append(srcs, i)
				}
			}
		}
		for _, al := range allows {
			for _, s := range srcs {
				for sh, shape := range wd.Shapes {
					if shape.Thorough && !thorough {
						continue
					}
					k := wd.Peers[s].Kind
					rr := [][2]int{{0, 0}}
					if k == c09fKIBGP || k == c09fKClient {
						rr = nil
						for orig := 0; orig < 3; orig++ {
							for cl := 0; cl < 3; cl++ {
								if wd.Confed && !thorough && orig+cl != 0 && !(orig == 1 && cl == 0) && !(orig == 0 && cl == 2) {
									continue // quick tier, confederation world: only the two loop indications on their own
								}
								rr = append(rr, [2]int{orig, cl})
							}
						}
					}
					for _, x := range rr {
						c := c09fCase{World: wi, Allow: al, Src: s, Shape: sh, Orig: x[0], CL: x[1]}
						if c.valid() {
							out = append(out, c)
						}
					}
				}
			}
		}
	}
	return out
}

func TestVerif_C09_Filter(t *testing.T) {
	r := vr.Start(t, "C09", "filter")
	defer r.Finish()
	r.Rule = "one fresh daemon (synctest bubble, every peer ESTABLISHED through the real FSM) per case; plain world: e1 e2 eBGP, e3 eBGP+replace-peer-as, i1 i2 iBGP non-client, c1 c2 RR client, s1 s2 RS client; " +
		"confederation world (member-AS 65000 of confederation 100): e1 e2 eBGP, m1 m2 other member-ASes, i1 iBGP non-client, c1 RR client; " +
		"case = world x allow-own-as x source x AS_PATH shape (x ORIGINATOR_ID x CLUSTER_LIST for iBGP sources); the route is announced by a real UPDATE (API for the local source); every peer of the world is a target. " +
		"Non-trivial = distinct case whose route reached handleUpdate/the API and for which the import decision and every per-target export decision were compared with the rule table"
	r.Assumptions = append(r.Assumptions, "bots decode what the daemon writes with the gobgp codec (validated by C04)")
	if r.ReplayPath() != "" {
		var c c09fCase
		if err := r.LoadReplay(&c); err != nil {
			t.Fatal(err)
		}
		r.Eval()
		c09fJudge(r, c, c09fRun(t, c))
		return
	}
	cases := c09fCases(vr.Thorough())
	for _, wd := range c09fWorlds {
		var names, shapes []string
		for _, p := range wd.Peers[1:] {
			names = append(names, fmt.Sprintf("%s(%s,AS%d)", p.Name, c09fKindNames[p.Kind], p.AS))
		}
		for _, s := range wd.Shapes {
			if !s.Thorough || vr.Thorough() {
				shapes = append(shapes, s.Name)
			}
		}
		r.Bounds["world_"+wd.Name+"_peers"] = strings.Join(names, " ")
		r.Bounds["world_"+wd.Name+"_aspath_shapes"] = strings.Join(shapes, " ")
	}
	r.Bounds["server"] = "AS 65000, router-id 10.0.0.254, cluster-id 10.9.9.9; confederation world: identifier 100, members 65100 65101"
	r.Bounds["cases"] = len(cases)
	if vr.Thorough() {
		r.Bounds["allow_own_as"] = []int{0, 1, 2}
		r.Bounds["sources"] = "local and every peer"
	} else {
		r.Bounds["allow_own_as"] = []int{0, 1}
		r.Bounds["sources"] = "local and one peer of each kind"
	}
	r.Bounds["originator_id"] = "absent / local router-id / other (iBGP sources)"
	r.Bounds["cluster_list"] = "absent / without / with the local cluster-id (iBGP sources; confederation world quick tier: the two loop indications on their own)"
	for i, c := range cases {
		r.Eval()
		o := c09fRun(t, c)
		c09fJudge(r, c, o)
		if i%97 == 5 {
			r.Sample(map[string]any{"case": c, "text": c.String(), "in_loc_rib": o.InLocRib, "adj_rib_in": o.AdjIn, "filterpath": o.Direct})
		}
	}
}
