package server

// C07 part "dominance" — which connection survives collision resolution.
// The decision is taken by (*fsm).isDominant(remote OPEN) at the moment both OPENs are at hand, which in
// the running daemon takes a race between two goroutines that neither E-SIM nor E-SCHED steers (it is
// channel plumbing). The decision function itself is a pure function of (local identifier, local AS,
// remote OPEN); it is enumerated here against RFC 4271 6.8 (the connection initiated by the speaker with
// the higher BGP Identifier survives) + RFC 6286 2.3 (equal identifiers: the larger AS number), the
// remote AS taken from the 4-octet capability when present (the 2-octet field then holds AS_TRANS).

import (
	"encoding/binary"
	"fmt"
	"net/netip"
	"testing"

	"github.com/osrg/gobgp/v4/internal/verif/vr"
	"github.com/osrg/gobgp/v4/pkg/config/oc"
	"github.com/osrg/gobgp/v4/pkg/packet/bgp"
)

type c07dCase struct {
	LocalID, RemoteID string
	LocalAS, RemoteAS uint32
	FourOctetCap      bool
}

func (c c07dCase) String() string {
	return fmt.Sprintf("local id %s AS %d, remote id %s AS %d (4-octet capability %v)", c.LocalID, c.LocalAS, c.RemoteID, c.RemoteAS, c.FourOctetCap)
}

func c07dRun(c c07dCase) (got bool, p string) {
	defer func() {
		if r := recover(); r != nil {
			p = fmt.Sprint(r)
		}
	}()
	g := &oc.Global{Config: oc.GlobalConfig{As: c.LocalAS, RouterId: netip.MustParseAddr(c.LocalID)}}
	n := &oc.Neighbor{Config: oc.NeighborConfig{PeerAs: c.RemoteAS, LocalAs: c.LocalAS, NeighborAddress: netip.MustParseAddr("10.0.0.1")},
		State: oc.NeighborState{NeighborAddress: netip.MustParseAddr("10.0.0.1")}}
	f := &fsm{gConf: g}
	f.pConf.Update(n)
	as2 := uint16(c.RemoteAS)
	if c.RemoteAS > 65535 {
		as2 = bgp.AS_TRANS
	}
	var caps []bgp.ParameterCapabilityInterface
	if c.FourOctetCap {
		caps = append(caps, bgp.NewCapFourOctetASNumber(c.RemoteAS))
	}
	m, err := bgp.NewBGPOpenMessage(as2, 90, netip.MustParseAddr(c.RemoteID), []bgp.OptionParameterInterface{bgp.NewOptionParameterCapability(caps)})
	if err != nil {
		return false, err.Error()
	}
	return f.isDominant(m.Body.(*bgp.BGPOpen)), ""
}

func TestVerif_C07_Dominance(t *testing.T) {
	r := vr.Start(t, "C07", "dominance")
	defer r.Finish()
	r.Rule = "every (local BGP Identifier, remote BGP Identifier) over 5 identifiers x (local AS, remote AS) over 8 AS numbers (2-octet, 4-octet, AS_TRANS itself, values on both sides of AS_TRANS) x remote OPEN with / without the 4-octet AS capability: (*fsm).isDominant compared with RFC 4271 6.8 + RFC 6286 2.3; non-trivial = distinct case"
	ids := []string{"0.0.0.1", "1.1.1.1", "10.0.0.254", "128.0.0.1", "255.255.255.254"}
	ass := []uint32{1, 23455, 23456, 23457, 65000, 65535, 65536, 4200000001}
	if r.ReplayPath() != "" {
		var c c07dCase
		if err := r.LoadReplay(&c); err != nil {
			t.Fatal(err)
		}
		ids, ass = nil, nil
		c07dJudge(r, c)
		return
	}
	for _, li := range ids {
		for _, ri := range ids {
			for _, la := range ass {
				for _, ra := range ass {
					for _, cap4 := range []bool{true, false} {
						if !cap4 && ra > 65535 {
							continue // a 4-octet AS cannot be announced without the capability
						}
						c07dJudge(r, c07dCase{li, ri, la, ra, cap4})
					}
				}
			}
		}
	}
}

func c07dJudge(r *vr.Report, c c07dCase) {
	r.Eval()
	r.NT(fmt.Sprint(c))
	got, p := c07dRun(c)
	if p != "" {
		r.Violationf("C07:dominance:panic", c, "%s: %s", c, p)
		return
	}
	l4, r4 := netip.MustParseAddr(c.LocalID).As4(), netip.MustParseAddr(c.RemoteID).As4()
	l, rr := binary.BigEndian.Uint32(l4[:]), binary.BigEndian.Uint32(r4[:])
	want := l > rr || (l == rr && c.LocalAS > c.RemoteAS)
	cls := "identifier"
	if l == rr {
		cls = "equal-identifier:as"
		if c.RemoteAS > 65535 {
			cls += ":remote-4-octet"
		}
	}
	r.Outcome(fmt.Sprintf("%s:local-dominant=%v", cls, want))
	if got != want {
		r.Violationf("C07:dominance:wrong-survivor:"+cls, c, "%s: the locally initiated connection must %s, isDominant says %v", c, map[bool]string{true: "survive", false: "be closed"}[want], got)
	}
}
