package apiutil

// C18 — API and native representations convert losslessly in both directions (part "codec").
//
// E-SEQ over the bgpgen catalogues (every capability, path attribute, NLRI of every family) plus the
// local c18 generators below. The oracle is the round-trip relation itself:
//
//   N1  native x -> API A (Marshal*) succeeds, A names a type (oneof set)
//   N2  A -> native x' (Unmarshal*) succeeds
//   N3  Serialize(x') == Serialize(x) under every compatible marshalling-option set, and String() equal
//   N4  Marshal*(x') is proto.Equal to A                              (API -> native -> API on produced values)
//   W1  proto.Unmarshal(proto.Marshal(A)) is proto.Equal to A, and converts to the same native bytes
//   D1  for every populated field f of A (at any depth) the deviation D = A with f cleared
//       ("absent optional field"): Unmarshal*(D) either returns an error (rejected: fine) or a native
//       value y whose Marshal*(y) equals D modulo "absent sub-message == empty sub-message";
//       it must never panic. D also has to survive the protobuf wire (W1).
//   P1  apiutil.NewPath -> GetNativeNlri/GetNativePathAttributes (structured and *_binary forms)
//
// No randomness; every catalogue item is executed.

import (
	"bytes"
	"encoding/hex"
	"encoding/json"
	"fmt"
	"net/netip"
	"os"
	"reflect"
	"regexp"
	"runtime"
	"sort"
	"strings"
	"testing"
	"time"

	"google.golang.org/protobuf/proto"
	"google.golang.org/protobuf/reflect/protoreflect"

	"github.com/osrg/gobgp/v4/api"
	"github.com/osrg/gobgp/v4/internal/verif/bgpgen"
	"github.com/osrg/gobgp/v4/internal/verif/vr"
	"github.com/osrg/gobgp/v4/pkg/packet/bgp"
)

type c18Case struct {
	Section string `json:"section"` // caps | attrs | nlri | path
	Name    string `json:"name"`
	Variant string `json:"variant,omitempty"` // D1: path of the cleared field ("" = the produced value)
}

// ---------------------------------------------------------------------------------------------
// helpers

// c18Panic names a recovered panic by its top-most gobgp frame (not a harness frame).
func c18Panic(v any) string {
	pc := make([]uintptr, 64)
	n := runtime.Callers(3, pc)
	fr := runtime.CallersFrames(pc[:n])
	site := "?"
	for {
		f, more := fr.Next()
		if strings.Contains(f.Function, "github.com/osrg/gobgp/v4/") && !strings.Contains(f.File, "zz_verif_") &&
			!strings.Contains(f.Function, "/internal/verif/") {
			fn := f.Function[strings.LastIndex(f.Function, "/")+1:]
			file := f.File[strings.LastIndex(f.File, "/")+1:]
			site = file + ":" + fn
			break
		}
		if !more {
			break
		}
	}
	msg := fmt.Sprint(v)
	if len(msg) > 120 {
		msg = msg[:120]
	}
	return site + ": " + msg
}

func c18Try(f func()) (p string) {
	defer func() {
		if r := recover(); r != nil {
			p = c18Panic(r)
		}
	}()
	f()
	return ""
}

func c18PanicSite(p string) string {
	if i := strings.Index(p, ": "); i >= 0 {
		return p[:i]
	}
	return p
}

var c18Digits = regexp.MustCompile(`[0-9a-fA-F:.]*[0-9][0-9a-fA-F:./]*`)

// c18ErrClass strips values out of an error text so that one validation = one class.
func c18ErrClass(err error) string {
	s := err.Error()
	for _, cut := range []string{": &{", ": %!", ": {"} { // a printed value follows
		if i := strings.Index(s, cut); i >= 0 {
			s = s[:i]
		}
	}
	s = c18Digits.ReplaceAllString(s, "N")
	if len(s) > 70 {
		s = s[:70]
	}
	return s
}

func c18TypeName(v any) string {
	if v == nil {
		return "nil"
	}
	s := reflect.TypeOf(v).String()
	s = strings.TrimPrefix(s, "*")
	s = strings.TrimPrefix(s, "bgp.")
	s = strings.TrimPrefix(s, "api.")
	return s
}

type c18Ser func(opts []*bgp.MarshallingOption) ([]byte, error)

// c18Bytes serialises under one option set; the result is a comparable string.
func c18Bytes(ser c18Ser, opts []*bgp.MarshallingOption) (out string) {
	if p := c18Try(func() {
		b, err := ser(opts)
		if err != nil {
			out = "ERR:" + err.Error()
			return
		}
		out = hex.EncodeToString(b)
	}); p != "" {
		out = "PANIC:" + p
	}
	return
}

func c18String(v any) (s string) {
	if p := c18Try(func() {
		if st, ok := v.(fmt.Stringer); ok {
			s = st.String()
		} else if b, err := json.Marshal(v); err == nil { // capabilities have no String(); their JSON form names every field
			s = strings.ReplaceAll(string(b), "null", "[]") // nil and empty tuple lists are the same capability
		} else {
			s = fmt.Sprintf("%T", v)
		}
	}); p != "" {
		s = "PANIC:" + p
	}
	return
}

// ---- protobuf walking: deviations, normalisation, type coverage ----

// c18Leaf names a field by its containing message type: "<Message>.<field>" (independent of where the
// message is nested, so one converter defect gets one key whether it is reached through a bare NLRI,
// MP_REACH_NLRI or MP_UNREACH_NLRI).
func c18Leaf(parent protoreflect.Message, fd protoreflect.FieldDescriptor) string {
	return string(parent.Descriptor().Name()) + "." + string(fd.Name())
}

// c18Walk visits every populated field of m depth-first in field-number order. visit returns true to stop.
func c18Walk(m protoreflect.Message, prefix string, visit func(parent protoreflect.Message, fd protoreflect.FieldDescriptor, path string) bool) bool {
	fds := m.Descriptor().Fields()
	for i := 0; i < fds.Len(); i++ {
		fd := fds.Get(i)
		if !m.Has(fd) {
			continue
		}
		path := prefix + "." + string(fd.Name())
		if visit(m, fd, path) {
			return true
		}
		v := m.Get(fd)
		switch {
		case fd.IsList():
			if fd.Kind() == protoreflect.MessageKind {
				l := v.List()
				for j := 0; j < l.Len(); j++ {
					if c18Walk(l.Get(j).Message(), path+"[]", visit) {
						return true
					}
				}
			}
		case fd.IsMap():
			if fd.MapValue().Kind() == protoreflect.MessageKind {
				var keys []protoreflect.MapKey
				v.Map().Range(func(k protoreflect.MapKey, _ protoreflect.Value) bool { keys = append(keys, k); return true })
				sort.Slice(keys, func(a, b int) bool { return keys[a].String() < keys[b].String() })
				for _, k := range keys {
					if c18Walk(v.Map().Get(k).Message(), path+"{}", visit) {
						return true
					}
				}
			}
		case fd.Kind() == protoreflect.MessageKind:
			if c18Walk(v.Message(), path, visit) {
				return true
			}
		}
	}
	return false
}

type c18Dev struct {
	Path string
	Leaf string
	Msg  proto.Message
}

// c18Deviations: for the k-th populated field of m (any depth) a clone of m with that field cleared.
func c18Deviations(m proto.Message) []c18Dev {
	n := 0
	c18Walk(m.ProtoReflect(), "", func(protoreflect.Message, protoreflect.FieldDescriptor, string) bool { n++; return false })
	out := make([]c18Dev, 0, n)
	for k := 0; k < n; k++ {
		c := proto.Clone(m)
		i := 0
		var p, leaf string
		c18Walk(c.ProtoReflect(), "", func(parent protoreflect.Message, fd protoreflect.FieldDescriptor, path string) bool {
			if i == k {
				leaf = c18Leaf(parent, fd)
				parent.Clear(fd)
				p = path
				return true
			}
			i++
			return false
		})
		out = append(out, c18Dev{Path: p, Leaf: leaf, Msg: c})
	}
	return out
}

// c18Norm clears, bottom-up, every singular non-oneof message field whose message is empty:
// "absent sub-message == sub-message with all defaults" (proto3 getters cannot tell them apart).
func c18Norm(m protoreflect.Message) {
	fds := m.Descriptor().Fields()
	for i := 0; i < fds.Len(); i++ {
		fd := fds.Get(i)
		if !m.Has(fd) {
			continue
		}
		v := m.Get(fd)
		switch {
		case fd.IsList():
			if fd.Kind() == protoreflect.MessageKind {
				for j := 0; j < v.List().Len(); j++ {
					c18Norm(v.List().Get(j).Message())
				}
			}
		case fd.IsMap():
			if fd.MapValue().Kind() == protoreflect.MessageKind {
				v.Map().Range(func(_ protoreflect.MapKey, e protoreflect.Value) bool { c18Norm(e.Message()); return true })
			}
		case fd.Kind() == protoreflect.MessageKind:
			c18Norm(v.Message())
			if fd.ContainingOneof() == nil && proto.Size(v.Message().Interface()) == 0 {
				m.Clear(fd)
			}
		}
	}
}

func c18EqualNorm(a, b proto.Message) bool {
	if proto.Equal(a, b) {
		return true
	}
	ac, bc := proto.Clone(a), proto.Clone(b)
	c18Norm(ac.ProtoReflect())
	c18Norm(bc.ProtoReflect())
	return proto.Equal(ac, bc)
}

// c18FirstDiff returns the leaf name ("<Message>.<field>") of the first field in which a and b differ.
func c18FirstDiff(a, b protoreflect.Message, prefix string) string {
	fds := a.Descriptor().Fields()
	for i := 0; i < fds.Len(); i++ {
		fd := fds.Get(i)
		path := c18Leaf(a, fd)
		if a.Has(fd) != b.Has(fd) {
			return path
		}
		if !a.Has(fd) {
			continue
		}
		va, vb := a.Get(fd), b.Get(fd)
		switch {
		case fd.IsList():
			if va.List().Len() != vb.List().Len() {
				return path + "(len)"
			}
			for j := 0; j < va.List().Len(); j++ {
				if fd.Kind() == protoreflect.MessageKind {
					if d := c18FirstDiff(va.List().Get(j).Message(), vb.List().Get(j).Message(), path+"[]"); d != "" {
						return d
					}
				} else if !va.List().Get(j).Equal(vb.List().Get(j)) {
					return path + "[]"
				}
			}
		case fd.IsMap():
			if !va.Equal(vb) {
				return path + "{}"
			}
		case fd.Kind() == protoreflect.MessageKind:
			if d := c18FirstDiff(va.Message(), vb.Message(), path); d != "" {
				return d
			}
		default:
			if !va.Equal(vb) {
				return path
			}
		}
	}
	return ""
}

func c18Diff(a, b proto.Message) string {
	ac, bc := proto.Clone(a), proto.Clone(b)
	c18Norm(ac.ProtoReflect())
	c18Norm(bc.ProtoReflect())
	if ac.ProtoReflect().Descriptor() != bc.ProtoReflect().Descriptor() {
		return "(type)"
	}
	return c18FirstDiff(ac.ProtoReflect(), bc.ProtoReflect(), "")
}

// c18Wire: protobuf wire round trip into a fresh message of the same type.
func c18Wire(m proto.Message) (proto.Message, error) {
	b, err := proto.Marshal(m)
	if err != nil {
		return nil, err
	}
	n := m.ProtoReflect().New().Interface()
	if err := proto.Unmarshal(b, n); err != nil {
		return nil, err
	}
	return n, nil
}

func c18SeenTypes(m proto.Message, seen map[string]bool) {
	seen[string(m.ProtoReflect().Descriptor().FullName())] = true
	c18Walk(m.ProtoReflect(), "", func(parent protoreflect.Message, fd protoreflect.FieldDescriptor, _ string) bool {
		if fd.Kind() == protoreflect.MessageKind && !fd.IsMap() {
			seen[string(fd.Message().FullName())] = true
		}
		if fd.IsMap() && fd.MapValue().Kind() == protoreflect.MessageKind {
			seen[string(fd.MapValue().Message().FullName())] = true
		}
		return false
	})
}

// ---------------------------------------------------------------------------------------------
// deliberate, documented non-representabilities / normalisations: counted as outcomes, never as
// violations. Each entry names the key (regexp, full match) and where the code says so.

var c18MappedRe = regexp.MustCompile(`::ffff:(\d+\.\d+\.\d+\.\d+)`)

var c18Deliberate = []struct {
	Key *regexp.Regexp
	Why string
}{
	{regexp.MustCompile(`C18:cap:CapExtendedNexthop:api-native:rejected:invalid address family for nexthop afi.*`),
		"capability.go unmarshalCapability: the next-hop AFI of an extended-nexthop tuple must be IP or IP6 (explicit validation)"},
	{regexp.MustCompile(`C18:attr:PathAttributeMpUnreachNLRI:api-native:rejected:no nlri values to unmarshal.*`),
		"attribute.go UnmarshalNLRIs rejects an empty NLRI list explicitly: an MP_UNREACH_NLRI End-of-RIB marker is not an API path attribute"},
	{regexp.MustCompile(`C18:attr:PathAttributePrefixSID:native-api-native:string-differs`),
		"not a loss: the bgp package has two native types for the SRv6 L3 Service TLV (SRv6ServiceTLV from the decoder, SRv6L3ServiceAttribute from UnmarshalPrefixSID); identical wire bytes and identical API form, only String() names the type"},
	{regexp.MustCompile(`C18:attr:PathAttributeCommunities:native-api-native:bytes-differ:api-identical@extended-length-flag`),
		"canonical re-encoding, no information lost: the EXTENDED_LENGTH flag is recomputed from the value length by the bgp constructors (RFC 4271 4.3 allows the bit only for values longer than 255 octets)"},
	{regexp.MustCompile(`C18:attr:PathAttributeMpReachNLRI:native-api-native:(bytes-differ:api-identical|string-differs)@v4mapped-nexthop`),
		"attribute.go NewMpReachNLRIAttributeFromNative: 'For backward compatibility with older versions; ipv4-mapped IPv6 addresses printed as IPv4 addresses' (Nexthop.Unmap())"},
}

func c18IsDeliberate(key string) (string, bool) {
	for _, d := range c18Deliberate {
		if d.Key.MatchString(key) && d.Key.FindString(key) == key {
			return d.Why, true
		}
	}
	return "", false
}

// ---------------------------------------------------------------------------------------------
// one generic element check

type c18Elem struct {
	Section string
	Name    string
	Kind    string // native Go type (key component)
	Native  any
	Opts    []bgpgen.OptSet // option sets under which the native pair is compared
	// converters (real code)
	Marshal   func(native any) (proto.Message, error)
	Unmarshal func(a proto.Message) (any, error)
	Ser       func(native any) c18Ser
	// Canon rebuilds a native value in the form the daemon holds it in (4-octet AS numbers); nil = identity.
	Canon func(native any) any
	// HasID: the element carries ADD-PATH identifiers the API message has no field for; bytes are then
	// compared only under option sets where ADD-PATH is off for the family, String() not at all.
	IDLoss func(o bgpgen.OptSet) bool
	// Inner: NLRI carried by an MP attribute (checked individually first; see c18InnerOK)
	Inner    []bgp.NLRI
	InnerFam bgp.Family
	// SkipDev: deviation paths not evaluated at this element (covered by another section)
	SkipDev func(path string) bool
	// Tag is appended to native-api-native keys (names a local generator's special value class)
	Tag string
	// Delta refines a bytes-differ key when the API form of both values is identical (optional)
	Delta func(before, after any) string
}

type c18Ctx struct {
	c     *vr.Report
	seen  map[string]bool
	names map[string][]string // key -> first few failing case names (for the report)
	notes map[string]string   // normalisation class -> first example
}

func (x *c18Ctx) note(class, example string) {
	if _, ok := x.notes[class]; !ok {
		if len(example) > 700 {
			example = example[:700]
		}
		x.notes[class] = example
	}
}

func (x *c18Ctx) violate(key string, cs c18Case, format string, a ...any) {
	if why, ok := c18IsDeliberate(key); ok {
		x.c.Outcome("deliberate: " + why)
		return
	}
	if d := os.Getenv("C18_DEBUG"); d != "" { // triage aid: one key per case for the keys matching the regexp
		if ok, _ := regexp.MatchString(d, key); ok {
			key += "|" + cs.Name + "#" + cs.Variant
		}
	}
	if l := x.names[key]; len(l) < 8 {
		n := cs.Name
		if cs.Variant != "" {
			n += " #" + cs.Variant
		}
		x.names[key] = append(l, n)
	}
	x.c.Violationf(key, cs, format, a...)
}

// c18InnerOK: does every NLRI inside an MP attribute survive MarshalNLRI/UnmarshalNLRI on its own?
// (If not, the NLRI is reported once in the nlri section and the MP attribute is skipped.)
func c18InnerOK(fam bgp.Family, l []bgp.NLRI) (ok bool) {
	ok = true
	if p := c18Try(func() {
		for _, n := range l {
			a, err := MarshalNLRI(n)
			if err != nil || a == nil || proto.Size(a) == 0 {
				ok = false
				return
			}
			n2, err := UnmarshalNLRI(fam, a)
			if err != nil || n2 == nil || reflect.ValueOf(n2).IsNil() {
				ok = false
				return
			}
			b1, e1 := n.Serialize()
			b2, e2 := n2.Serialize()
			if e1 != nil || e2 != nil || !bytes.Equal(b1, b2) {
				ok = false
				return
			}
		}
	}); p != "" {
		ok = false
	}
	return
}

func c18CheckElem(x *c18Ctx, e c18Elem, onlyVariant string, replayOne bool) {
	c := x.c
	cs := c18Case{Section: e.Section, Name: e.Name}
	kp := "C18:" + e.Section + ":" + e.Kind
	c.Eval()

	if len(e.Inner) > 0 && !c18InnerOK(e.InnerFam, e.Inner) {
		c.Outcome(e.Section + ":skipped(carries an NLRI with a violation of its own; reported in the nlri section)")
		return
	}

	// N1
	var A proto.Message
	var err error
	if p := c18Try(func() { A, err = e.Marshal(e.Native) }); p != "" {
		x.violate("C18:"+e.Section+":native-api:panic:"+c18PanicSite(p), cs, "%s: Marshal panicked: %s (native %s)", e.Name, p, c18String(e.Native))
		return
	}
	if err != nil {
		x.violate(kp+":native-api:error:"+c18ErrClass(err), cs, "%s: native value %s cannot be converted to the API: %v", e.Name, c18String(e.Native), err)
		c.Outcome(e.Section + ":native-api:error")
		return
	}
	if A == nil || proto.Size(A) == 0 {
		// an api.Attribute / api.NLRI / api.Capability without its oneof: the type was dropped silently
		x.violate(kp+":native-api:type-dropped", cs, "%s: Marshal returned an API message without a type for native %s", e.Name, c18String(e.Native))
		return
	}
	c18SeenTypes(A, x.seen)
	if c.WantSample() {
		c.Sample(map[string]any{"section": e.Section, "name": e.Name, "api": fmt.Sprint(A)})
	}

	baseDiff := ""
	if onlyVariant == "" {
		// N2
		var x2 any
		if p := c18Try(func() { x2, err = e.Unmarshal(A) }); p != "" {
			x.violate("C18:"+e.Section+":api-native:panic:"+c18PanicSite(p), cs, "%s: Unmarshal of the produced API value panicked: %s\n  api %v", e.Name, p, A)
			return
		}
		if err != nil {
			x.violate(kp+":api-native:rejected:"+c18ErrClass(err), cs, "%s: API value produced from native %s is rejected by Unmarshal: %v (api=%v)", e.Name, c18String(e.Native), err, A)
			c.Outcome(e.Section + ":api-native:rejected")
			return
		}
		c.NT(e.Section + "/" + e.Name)

		// N4 first (its diff names the bytes-differ key)
		var A2 proto.Message
		apiDiff := ""
		if p := c18Try(func() { A2, err = e.Marshal(x2) }); p != "" {
			x.violate("C18:"+e.Section+":api-native-api:panic:"+c18PanicSite(p), cs, "%s: %s", e.Name, p)
			return
		} else if err != nil {
			x.violate(kp+":api-native-api:error:"+c18ErrClass(err), cs, "%s: %v", e.Name, err)
			return
		} else if !proto.Equal(A, A2) {
			if c18EqualNorm(A, A2) {
				c.Outcome(e.Section + ":api-native-api:equal-modulo-empty-submessage")
			} else {
				apiDiff = c18Diff(A, A2)
				baseDiff = apiDiff
			}
		} else {
			c.Outcome(e.Section + ":api-native-api:equal")
		}

		// N3
		native := e.Native
		if e.Canon != nil {
			if cn := e.Canon(native); cn != nil {
				if len(e.Opts) > 0 && c18Bytes(e.Ser(cn), e.Opts[0].Opts) != c18Bytes(e.Ser(native), e.Opts[0].Opts) {
					c.Outcome("deliberate: 2-octet AS_PATH/AGGREGATOR forms are compared in their 4-octet form (attribute.go UnmarshalAttribute always builds As4PathParam / a uint32 aggregator AS; pkg/server/fsm.go converts received 2-octet attributes with UpdatePathAttrs4ByteAs/UpdatePathAggregator4ByteAs before they reach the RIB)")
				}
				native = cn
			}
		}
		bytesOK := true
		tag := ""
		if e.Tag != "" {
			tag = "@" + e.Tag
		}
		for _, o := range e.Opts {
			if e.IDLoss != nil && e.IDLoss(o) {
				c.Outcome("deliberate: ADD-PATH identifiers inside MP_REACH/MP_UNREACH are not representable (api.MpReachNLRIAttribute/MpUnreachNLRIAttribute carry NLRI without identifier; attribute.go UnmarshalAttribute builds PathNLRI{NLRI: n}); compared with ADD-PATH off only")
				continue
			}
			b1 := c18Bytes(e.Ser(native), o.Opts)
			b2 := c18Bytes(e.Ser(x2), o.Opts)
			if strings.HasPrefix(b1, "PANIC:") || strings.HasPrefix(b1, "ERR:") {
				c.Outcome(e.Section + ":native-itself-not-serialisable(skipped; C04 territory)")
				continue
			}
			if b1 != b2 {
				bytesOK = false
				d := apiDiff
				if d == "" {
					d = "api-identical"
				}
				if e.Delta != nil {
					if dd := e.Delta(native, x2); dd != "" {
						d += ":" + dd
					}
				}
				x.violate(kp+":native-api-native:bytes-differ:"+d+tag, cs, "%s [%s]: native -> API -> native changes the wire bytes (API of both differs at: %s)\n  before %s  %s\n  after  %s  %s\n  api %v",
					e.Name, o.Name, d, b1, c18String(native), b2, c18String(x2), A)
				break
			}
		}
		if bytesOK && apiDiff != "" {
			x.violate(kp+":api-native-api:differs:"+apiDiff, cs, "%s: same wire bytes, but API -> native -> API differs at %s\n  before %v\n  after  %v", e.Name, apiDiff, A, A2)
			bytesOK = false
		}
		if bytesOK && e.IDLoss == nil {
			if s1, s2 := c18String(native), c18String(x2); s1 != s2 {
				bytesOK = false
				if e.Delta != nil {
					if dd := e.Delta(native, x2); dd != "" {
						tag = ":" + dd + tag
					}
				}
				if tag == "" && c18MappedRe.ReplaceAllString(s1, "$1") == c18MappedRe.ReplaceAllString(s2, "$1") {
					tag = "@v4mapped-nexthop" // only the notation of an IPv4-mapped next hop differs (documented Unmap)
				}
				x.violate(kp+":native-api-native:string-differs"+tag, cs, "%s: same bytes but String() %q became %q (types %s -> %s)", e.Name, s1, s2, c18TypeName(native), c18TypeName(x2))
			}
		}
		if bytesOK {
			c.Outcome(e.Section + ":native-api-native:equal")
		}

		// W1
		if w, err := c18Wire(A); err != nil {
			x.violate(kp+":wire:error:"+c18ErrClass(err), cs, "%s: the API value does not survive proto.Marshal/Unmarshal: %v (api=%q)", e.Name, err, fmt.Sprint(A))
		} else if !proto.Equal(A, w) {
			x.violate(kp+":wire:differs", cs, "%s: API value changed by the protobuf wire round trip: %v -> %v", e.Name, A, w)
		} else {
			var x3 any
			var err error
			if p := c18Try(func() { x3, err = e.Unmarshal(w) }); p != "" || err != nil {
				x.violate(kp+":wire:unmarshal-after-wire", cs, "%s: %v %v", e.Name, p, err)
			} else if len(e.Opts) > 0 {
				o := e.Opts[0]
				if c18Bytes(e.Ser(x3), o.Opts) != c18Bytes(e.Ser(x2), o.Opts) {
					x.violate(kp+":wire:native-differs-after-wire", cs, "%s: conversion after the protobuf wire gives other bytes", e.Name)
				} else {
					c.Outcome(e.Section + ":wire:equal")
				}
			}
		}
	}
	if strings.HasSuffix(e.Name, "@decoded") && !replayOne {
		return // deviations of the API message are the same as those of the constructor-built twin
	}

	// D1
	for _, d := range c18Deviations(A) {
		if onlyVariant != "" && d.Path != onlyVariant {
			continue
		}
		if e.SkipDev != nil && e.SkipDev(d.Path) {
			continue
		}
		dc := c18Case{Section: e.Section, Name: e.Name, Variant: d.Path}
		c.Eval()
		var y any
		var err error
		if p := c18Try(func() { y, err = e.Unmarshal(d.Msg) }); p != "" {
			x.violate("C18:absent-field:panic:"+c18PanicSite(p), dc, "%s with %s absent: Unmarshal panicked: %s\n  api %v", e.Name, d.Path, p, d.Msg)
			continue
		}
		if err != nil {
			c.Outcome(e.Section + ":absent-field:rejected")
			continue
		}
		c.NT(e.Section + "/" + e.Name + "#" + d.Path)
		var D2 proto.Message
		if p := c18Try(func() { D2, err = e.Marshal(y) }); p != "" {
			x.violate("C18:absent-field:marshal-back-panic:"+c18PanicSite(p), dc, "%s with %s absent: accepted, but Marshal of the result panicked: %s\n  api %v", e.Name, d.Path, p, d.Msg)
			continue
		}
		if err != nil {
			x.violate("C18:absent-field:"+d.Leaf+":marshal-back-error", dc, "%s with %s absent: accepted, but the native value cannot be converted back: %v", e.Name, d.Path, err)
			continue
		}
		if D2 == nil {
			D2 = A.ProtoReflect().New().Interface()
		}
		switch {
		case proto.Equal(d.Msg, D2):
			c.Outcome(e.Section + ":absent-field:accepted-equal")
		case c18EqualNorm(d.Msg, D2):
			c.Outcome(e.Section + ":absent-field:accepted-equal-modulo-empty-submessage")
		default:
			df := c18Diff(d.Msg, D2)
			switch {
			case df == baseDiff && baseDiff != "":
				c.Outcome(e.Section + ":absent-field:skipped(the undeviated value already differs at the same field)")
			case df == d.Leaf:
				// the client omitted F (for a scalar: sent its zero value) and reads back another F
				c.Outcome(e.Section + ":absent-field:accepted-but-field-comes-back-set")
				x.note("absent-field comes back set: "+d.Leaf, fmt.Sprintf("%s #%s: sent %v | back %v", e.Name, d.Path, d.Msg, D2))
			default:
				c.Outcome(e.Section + ":absent-field:accepted-but-other-field-changes")
				x.note("absent "+d.Leaf+" changes "+df, fmt.Sprintf("%s #%s: sent %v | back %v", e.Name, d.Path, d.Msg, D2))
			}
		}
		if w, err := c18Wire(d.Msg); err != nil || !proto.Equal(w, d.Msg) {
			x.violate(kp+":absent-field:wire", dc, "%s with %s absent: protobuf wire round trip: err=%v", e.Name, d.Path, err)
		}
	}

	// D2 (thorough tier): every pair of populated fields cleared; crash-safety and convertibility only.
	if !vr.Thorough() && !strings.Contains(onlyVariant, "|") {
		return
	}
	for _, d1 := range c18Deviations(A) {
		if e.SkipDev != nil && e.SkipDev(d1.Path) {
			continue
		}
		for _, d := range c18Deviations(d1.Msg) {
			v := d1.Path + "|" + d.Path
			if onlyVariant != "" && v != onlyVariant {
				continue
			}
			if d.Path < d1.Path && !strings.HasPrefix(d1.Path, d.Path) { // unordered pairs once (clearing a parent second is kept)
				continue
			}
			dc := c18Case{Section: e.Section, Name: e.Name, Variant: v}
			c.Eval()
			var y any
			var err error
			if p := c18Try(func() { y, err = e.Unmarshal(d.Msg) }); p != "" {
				x.violate("C18:absent-field:panic:"+c18PanicSite(p), dc, "%s with %s absent: Unmarshal panicked: %s\n  api %v", e.Name, v, p, d.Msg)
				continue
			}
			if err != nil {
				c.Outcome(e.Section + ":absent-pair:rejected")
				continue
			}
			c.NT(e.Section + "/" + e.Name + "#" + v)
			if p := c18Try(func() { _, err = e.Marshal(y) }); p != "" {
				x.violate("C18:absent-field:marshal-back-panic:"+c18PanicSite(p), dc, "%s with %s absent: accepted, but Marshal of the result panicked: %s\n  api %v", e.Name, v, p, d.Msg)
				continue
			}
			if err != nil {
				x.violate("C18:absent-field:"+d.Leaf+":marshal-back-error", dc, "%s with %s absent: accepted, but the native value cannot be converted back: %v", e.Name, v, err)
				continue
			}
			c.Outcome(e.Section + ":absent-pair:accepted-and-convertible")
		}
	}
}

// ---------------------------------------------------------------------------------------------
// local generators (types the API supports that bgpgen lacks, or values at API-specific boundaries)

func c18must[T any](v T, err error) T {
	if err != nil {
		panic(err)
	}
	return v
}

func c18ExtraCaps() []bgpgen.Cap {
	return []bgpgen.Cap{
		// host/domain names and version strings are raw octets on the wire; the API fields are proto3
		// strings, which must be valid UTF-8 to be marshalled.
		{Name: "fqdn/c18-non-utf8-host", Cap: bgp.NewCapFQDN("r\xff1", "example")},
		{Name: "fqdn/c18-non-utf8-domain", Cap: bgp.NewCapFQDN("r1", "ex\xc3")},
		{Name: "software-version/c18-non-utf8", Cap: bgp.NewCapSoftwareVersion("v\x80")},
		{Name: "fqdn/c18-utf8-multibyte", Cap: bgp.NewCapFQDN("ré", "日本")},
	}
}

type c18XAttr struct {
	G   bgpgen.Attr
	Tag string
}

func c18ExtraAttrs() []c18XAttr {
	a := netip.MustParseAddr
	var out []c18XAttr
	add := func(kind, n, tag string, v bgp.PathAttributeInterface) {
		out = append(out, c18XAttr{bgpgen.Attr{Name: kind + "/c18-" + n, Kind: kind, Attr: v}, tag})
	}
	add("next-hop", "v6", "", c18must(bgp.NewPathAttributeNextHop(a("2001:db8::1"))))
	add("next-hop", "v4mapped", "", c18must(bgp.NewPathAttributeNextHop(a("::ffff:192.0.2.1"))))
	add("next-hop", "v6-linklocal", "", c18must(bgp.NewPathAttributeNextHop(a("fe80::1"))))
	n4 := func() bgp.NLRI { return c18must(bgp.NewIPAddrPrefix(netip.MustParsePrefix("10.1.2.0/24"))) }
	n6 := func() bgp.NLRI { return c18must(bgp.NewIPAddrPrefix(netip.MustParsePrefix("2001:db8:1::/64"))) }
	add("mp-reach", "v4uc-nh-v4mapped", "v4mapped-nexthop", c18must(bgp.NewPathAttributeMpReachNLRI(bgp.RF_IPv4_UC, []bgp.PathNLRI{{NLRI: n4()}}, a("::ffff:192.0.2.1"))))
	add("mp-reach", "v6uc-nh-v4mapped", "v4mapped-nexthop", c18must(bgp.NewPathAttributeMpReachNLRI(bgp.RF_IPv6_UC, []bgp.PathNLRI{{NLRI: n6()}}, a("::ffff:192.0.2.1"))))
	add("mp-unreach", "v6uc-eor", "", c18must(bgp.NewPathAttributeMpUnreachNLRI(bgp.RF_IPv6_UC, nil)))
	// attribute flag bits that the typed API messages have no field for
	lp := bgp.NewPathAttributeLocalPref(100)
	lp.Flags |= bgp.BGP_ATTR_FLAG_PARTIAL
	add("local-pref", "partial-flag", "partial-flag", lp)
	cm := bgp.NewPathAttributeCommunities([]uint32{1})
	cm.Flags |= bgp.BGP_ATTR_FLAG_PARTIAL
	add("communities", "partial-flag", "partial-flag", cm)
	cm2 := bgp.NewPathAttributeCommunities([]uint32{1})
	cm2.Flags |= bgp.BGP_ATTR_FLAG_EXTENDED_LENGTH
	add("communities", "extended-length-flag-short-value", "extended-length-flag", cm2)
	// empty value lists, unknown enum values
	add("communities", "empty", "", bgp.NewPathAttributeCommunities(nil))
	add("large-communities", "empty", "", bgp.NewPathAttributeLargeCommunities(nil))
	add("as-path", "empty-segment", "", bgp.NewPathAttributeAsPath([]bgp.AsPathParamInterface{bgp.NewAs4PathParam(bgp.BGP_ASPATH_ATTR_TYPE_SEQ, nil)}))
	add("as-path", "unknown-segment-type", "", bgp.NewPathAttributeAsPath([]bgp.AsPathParamInterface{bgp.NewAs4PathParam(9, []uint32{1})}))
	add("as-path", "2byte-params", "", bgp.NewPathAttributeAsPath([]bgp.AsPathParamInterface{bgp.NewAsPathParam(bgp.BGP_ASPATH_ATTR_TYPE_SEQ, []uint16{65001, 65002})}))
	out[len(out)-1].G.AS = bgpgen.AS2
	add("origin", "unknown-value", "", bgp.NewPathAttributeOrigin(255))
	return out
}

func c18ExtraNLRIs() []bgpgen.NLRI {
	var out []bgpgen.NLRI
	add := func(f bgp.Family, n string, v bgp.NLRI) {
		out = append(out, bgpgen.NLRI{Name: f.String() + "/c18-" + n, Family: f, NLRI: v})
	}
	// RT membership whose 8-octet route target is not a transitive sub-type-2 community: the NLRI carries
	// an arbitrary extended community prefix on the wire.
	add(bgp.RF_RTC_UC, "rt-subtype-soo", bgp.NewRouteTargetMembershipNLRI(65000, bgp.NewTwoOctetAsSpecificExtended(bgp.EC_SUBTYPE_ROUTE_ORIGIN, 65000, 100, true)))
	add(bgp.RF_RTC_UC, "rt-nontransitive", bgp.NewRouteTargetMembershipNLRI(65000, bgp.NewTwoOctetAsSpecificExtended(bgp.EC_SUBTYPE_ROUTE_TARGET, 65000, 100, false)))
	return out
}

// c18LsDelta names the BGP-LS attribute TLV types that were lost / duplicated / changed.
func c18LsDelta(before, after any) string {
	b, ok1 := before.(*bgp.PathAttributeLs)
	a, ok2 := after.(*bgp.PathAttributeLs)
	if !ok1 || !ok2 {
		return ""
	}
	cnt := func(l []bgp.LsTLVInterface) (map[int]int, map[int]string) {
		m, v := map[int]int{}, map[int]string{}
		for _, t := range l {
			ty := int(t.GetLsTLV().Type)
			m[ty]++
			s, _ := t.Serialize()
			v[ty] += hex.EncodeToString(s)
		}
		return m, v
	}
	bm, bv := cnt(b.TLVs)
	am, av := cnt(a.TLVs)
	var out []string
	seen := map[int]bool{}
	for ty := range bm {
		seen[ty] = true
	}
	for ty := range am {
		seen[ty] = true
	}
	var tys []int
	for ty := range seen {
		tys = append(tys, ty)
	}
	sort.Ints(tys)
	for _, ty := range tys {
		switch {
		case am[ty] == 0:
			out = append(out, fmt.Sprintf("tlv%d-lost", ty))
		case bm[ty] == 0:
			out = append(out, fmt.Sprintf("tlv%d-invented", ty))
		case am[ty] > bm[ty]:
			out = append(out, fmt.Sprintf("tlv%d-duplicated", ty))
		case av[ty] != bv[ty]:
			out = append(out, fmt.Sprintf("tlv%d-changed", ty))
		}
	}
	return strings.Join(out, "+")
}

// c18Canon: the 4-octet form of AS_PATH / AGGREGATOR (independent of apiutil: rebuilt from the getters).
func c18Canon(n any) any {
	switch a := n.(type) {
	case *bgp.PathAttributeAsPath:
		ps := make([]bgp.AsPathParamInterface, 0, len(a.Value))
		for _, p := range a.Value {
			ps = append(ps, bgp.NewAs4PathParam(p.GetType(), p.GetAS()))
		}
		r := bgp.NewPathAttributeAsPath(ps)
		r.Flags = a.Flags&^bgp.BGP_ATTR_FLAG_EXTENDED_LENGTH | r.Flags&bgp.BGP_ATTR_FLAG_EXTENDED_LENGTH
		return r
	case *bgp.PathAttributeAggregator:
		r, err := bgp.NewPathAttributeAggregator(a.Value.AS, a.Value.Address)
		if err != nil {
			return nil
		}
		r.Flags = a.Flags
		return r
	}
	return nil
}

// ---------------------------------------------------------------------------------------------
// the test

func TestVerif_C18_Codec(t *testing.T) {
	r := vr.Start(t, "C18", "codec")
	defer r.Finish()
	r.Rule = "every item of bgpgen.Capabilities/Attributes/AllNLRIs (+ local c18 items), as built by the constructors and as re-decoded from its own wire bytes, " +
		"is converted native->API->native->API by the real apiutil functions, and every single-field-cleared deviation of each produced API message is converted API->native->API; " +
		"non-trivial = the API value was accepted by Unmarshal (the round-trip clauses were evaluated)"

	optsAll := bgpgen.MarshallingOptionSets()
	var only c18Case
	replay := r.ReplayPath() != ""
	if replay {
		if err := r.LoadReplay(&only); err != nil {
			t.Fatalf("ENGINE-ERROR replay: %v", err)
		}
	}

	// ---- build the element list (fresh objects per element: Serialize caches lengths inside them) ----
	var elems []c18Elem

	capConv := func(e *c18Elem) {
		e.Section = "cap"
		e.Marshal = func(n any) (proto.Message, error) {
			m, err := MarshalCapability(n.(bgp.ParameterCapabilityInterface))
			if m == nil {
				return nil, err
			}
			return m, err
		}
		e.Unmarshal = func(a proto.Message) (any, error) {
			v, err := unmarshalCapability(a.(*api.Capability))
			if err == nil && (v == nil || reflect.ValueOf(v).IsNil()) {
				return nil, fmt.Errorf("nil capability without error")
			}
			return v, err
		}
		e.Ser = func(n any) c18Ser {
			return func([]*bgp.MarshallingOption) ([]byte, error) {
				return n.(bgp.ParameterCapabilityInterface).Serialize()
			}
		}
	}
	noOpts := []bgpgen.OptSet{optsAll[0]}
	for _, cp := range append(bgpgen.Capabilities(), c18ExtraCaps()...) {
		e := c18Elem{Name: cp.Name, Kind: c18TypeName(cp.Cap), Native: cp.Cap, Opts: noOpts}
		capConv(&e)
		elems = append(elems, e)
		// the same capability as the decoder produces it
		if b, err := cp.Cap.Serialize(); err == nil {
			if d, err := bgp.DecodeCapability(b); err == nil {
				if b2, err := d.Serialize(); err == nil && bytes.Equal(b, b2) {
					e2 := c18Elem{Name: cp.Name + "@decoded", Kind: c18TypeName(d), Native: d, Opts: noOpts}
					capConv(&e2)
					elems = append(elems, e2)
				}
			}
		}
	}
	nCaps := len(elems)

	attrConv := func(e *c18Elem) {
		e.Section = "attr"
		e.Marshal = func(n any) (proto.Message, error) {
			l, err := MarshalPathAttributes([]bgp.PathAttributeInterface{n.(bgp.PathAttributeInterface)})
			if err != nil || len(l) != 1 {
				return nil, err
			}
			return l[0], nil
		}
		e.Unmarshal = func(a proto.Message) (any, error) {
			l, err := UnmarshalPathAttributes([]*api.Attribute{a.(*api.Attribute)})
			if err != nil {
				return nil, err
			}
			if len(l) != 1 || l[0] == nil || reflect.ValueOf(l[0]).IsNil() {
				return nil, fmt.Errorf("nil attribute without error")
			}
			return l[0], nil
		}
		e.Ser = func(n any) c18Ser {
			return func(o []*bgp.MarshallingOption) ([]byte, error) {
				return n.(bgp.PathAttributeInterface).Serialize(o...)
			}
		}
		e.Canon = c18Canon
		e.Delta = c18LsDelta
		e.SkipDev = func(p string) bool {
			return strings.HasPrefix(p, ".mp_reach.nlris[].") || strings.HasPrefix(p, ".mp_unreach.nlris[].")
		}
		switch m := e.Native.(type) {
		case *bgp.PathAttributeMpReachNLRI:
			e.InnerFam = bgp.NewFamily(m.AFI, m.SAFI)
			for _, v := range m.Value {
				e.Inner = append(e.Inner, v.NLRI)
			}
		case *bgp.PathAttributeMpUnreachNLRI:
			e.InnerFam = bgp.NewFamily(m.AFI, m.SAFI)
			for _, v := range m.Value {
				e.Inner = append(e.Inner, v.NLRI)
			}
		}
	}
	var xattrs []c18XAttr
	for _, at := range bgpgen.Attributes() {
		xattrs = append(xattrs, c18XAttr{at, ""})
	}
	xattrs = append(xattrs, c18ExtraAttrs()...)
	attrKinds := map[string]bool{}
	for _, xa := range xattrs {
		at, xtag := xa.G, xa.Tag
		attrKinds[at.Kind] = true
		var os []bgpgen.OptSet
		for _, o := range optsAll {
			if o.Extended { // the extended-message option does not change attribute encoding
				continue
			}
			if o.Compatible(at.AS, false) {
				os = append(os, o)
			}
		}
		e := c18Elem{Name: at.Name, Kind: c18TypeName(at.Attr), Native: at.Attr, Opts: os, Tag: xtag}
		attrConv(&e)
		if at.HasID {
			fam := at.Fam
			e.IDLoss = func(o bgpgen.OptSet) bool { return o.AddPath(fam) }
		}
		elems = append(elems, e)
		// the same attribute as the decoder produces it (first compatible option set)
		if len(os) > 0 && !at.HasID {
			if b, err := at.Attr.Serialize(os[0].Opts...); err == nil {
				if d, err := bgp.GetPathAttribute(b); err == nil {
					if p := c18Try(func() { err = d.DecodeFromBytes(b, os[0].Opts...) }); p == "" && err == nil {
						if b2, err := d.Serialize(os[0].Opts...); err == nil && bytes.Equal(b, b2) {
							e2 := c18Elem{Name: at.Name + "@decoded", Kind: c18TypeName(d), Native: d, Opts: os, Tag: xtag}
							attrConv(&e2)
							elems = append(elems, e2)
						}
					}
				}
			}
		}
	}
	nAttrs := len(elems) - nCaps

	nlriOpts := []bgpgen.OptSet{optsAll[0], optsAll[3]}
	nlriConv := func(e *c18Elem, fam bgp.Family) {
		e.Section = "nlri"
		e.Marshal = func(n any) (proto.Message, error) {
			m, err := MarshalNLRI(n.(bgp.NLRI))
			if m == nil {
				return nil, err
			}
			return m, err
		}
		e.Unmarshal = func(a proto.Message) (any, error) {
			v, err := UnmarshalNLRI(fam, a.(*api.NLRI))
			if err == nil && (v == nil || reflect.ValueOf(v).IsNil()) {
				return nil, fmt.Errorf("nil NLRI without error")
			}
			return v, err
		}
		e.Ser = func(n any) c18Ser {
			return func(o []*bgp.MarshallingOption) ([]byte, error) { return n.(bgp.NLRI).Serialize(o...) }
		}
	}
	nlris := append(bgpgen.AllNLRIs(), c18ExtraNLRIs()...)
	for _, nl := range nlris {
		nl := nl
		ntag := ""
		switch {
		case strings.HasPrefix(nl.Name, "rtc/partial-"):
			ntag = "partial-route-target-prefix"
		case strings.HasPrefix(nl.Name, "rtc/c18-rt-"):
			ntag = "route-target-type-octets"
		}
		e := c18Elem{Name: nl.Name, Kind: c18TypeName(nl.NLRI), Native: nl.NLRI, Opts: nlriOpts, Tag: ntag}
		nlriConv(&e, nl.Family)
		elems = append(elems, e)
		if b, err := nl.NLRI.Serialize(); err == nil {
			var d bgp.NLRI
			if p := c18Try(func() { d, err = bgp.NLRIFromSlice(nl.Family, b) }); p == "" && err == nil && d != nil {
				if b2, err := d.Serialize(); err == nil && bytes.Equal(b, b2) {
					e2 := c18Elem{Name: nl.Name + "@decoded", Kind: c18TypeName(d), Native: d, Opts: nlriOpts, Tag: ntag}
					nlriConv(&e2, nl.Family)
					elems = append(elems, e2)
				}
			}
		}
	}
	nNLRI := len(elems) - nCaps - nAttrs

	r.Bounds["capabilities"] = fmt.Sprintf("%d elements (catalogue + re-decoded twins)", nCaps)
	r.Bounds["path_attributes"] = fmt.Sprintf("%d elements (catalogue of %d + re-decoded twins), %d attribute kinds", nAttrs, len(xattrs), len(attrKinds))
	r.Bounds["nlri"] = fmt.Sprintf("%d elements (catalogue of %d + re-decoded twins), %d families", nNLRI, len(nlris), len(bgpgen.Families()))
	r.Bounds["option_sets"] = "attributes: every compatible of 8 (ADD-PATH none/v4/mp/all x 2-/4-octet AS); NLRI: 2 (none, ADD-PATH all); capabilities: none"
	r.Bounds["api_deviations"] = "every populated field (any depth) of every produced API message cleared, one at a time (NLRI inside MP_REACH/MP_UNREACH: in the nlri section only)"
	if vr.Thorough() {
		r.Bounds["api_deviations_thorough"] = "additionally every unordered pair of populated fields cleared (crash-safety and convertibility clauses)"
	}
	r.Bounds["local_generators"] = fmt.Sprintf("%d capabilities, %d attributes, %d NLRI (names contain c18-)", len(c18ExtraCaps()), len(c18ExtraAttrs()), len(c18ExtraNLRIs()))

	W := vr.Workers()
	if replay {
		W = 1
	}
	ctxs := make([]*c18Ctx, W)
	r.Parallel(W, func(w int, c *vr.Report) {
		x := &c18Ctx{c: c, seen: map[string]bool{}, names: map[string][]string{}, notes: map[string]string{}}
		ctxs[w] = x
		for i, e := range elems {
			if i%W != w {
				continue
			}
			if replay && (e.Section != only.Section || e.Name != only.Name) {
				continue
			}
			c18CheckElem(x, e, only.Variant, replay)
		}
	})
	seenAll := map[string]bool{}
	names := map[string][]string{}
	notes := map[string]string{}
	for _, x := range ctxs {
		for k, v := range x.notes {
			if o, ok := notes[k]; !ok || v < o {
				notes[k] = v
			}
		}
		for k := range x.seen {
			seenAll[k] = true
		}
		for k, l := range x.names {
			names[k] = append(names[k], l...)
		}
	}
	if replay {
		return
	}

	// P1: whole api.Path, structured and binary forms (sequential; small)
	c18Paths(r)
	// API-first items for the message types no native generator reaches
	c18APIFirst(r, seenAll)

	// API type coverage: which message types of attribute/nlri/capability/extcom protos never occurred
	var missing []string
	for _, fdesc := range []protoreflect.FileDescriptor{
		(&api.Attribute{}).ProtoReflect().Descriptor().ParentFile(),
		(&api.NLRI{}).ProtoReflect().Descriptor().ParentFile(),
		(&api.Capability{}).ProtoReflect().Descriptor().ParentFile(),
		(&api.RouteTarget{}).ProtoReflect().Descriptor().ParentFile(),
	} {
		var rec func(ms protoreflect.MessageDescriptors)
		rec = func(ms protoreflect.MessageDescriptors) {
			for i := 0; i < ms.Len(); i++ {
				m := ms.Get(i)
				if m.IsMapEntry() {
					continue
				}
				if !seenAll[string(m.FullName())] {
					missing = append(missing, string(m.FullName()))
				}
				rec(m.Messages())
			}
		}
		rec(fdesc.Messages())
	}
	n := len(seenAll)
	sort.Strings(missing)
	r.Extra["api_message_types_exercised"] = n
	r.Extra["api_message_types_never_produced"] = missing
	r.Extra["absent_field_normalisations"] = notes
	for k := range names {
		sort.Strings(names[k])
		if len(names[k]) > 8 {
			names[k] = names[k][:8]
		}
	}
	r.Extra["cases_by_key"] = names
}

// c18APIFirst: API values of message types that no native generator reaches (the decoder never builds
// the matching native type, or bgpgen has no constructor for it): API -> native -> API must be equal,
// and the native value must serialise.
func c18APIFirst(r *vr.Report, seen map[string]bool) {
	sid16 := netip.MustParseAddr("2001:db8::1").AsSlice()
	rd := &api.RouteDistinguisher{Rd: &api.RouteDistinguisher_TwoOctetAsn{TwoOctetAsn: &api.RouteDistinguisherTwoOctetASN{Admin: 65000, Assigned: 100}}}
	rt := &api.RouteTarget{Rt: &api.RouteTarget_TwoOctetAsSpecific{TwoOctetAsSpecific: &api.TwoOctetAsSpecificExtended{IsTransitive: true, SubType: 2, Asn: 65000, LocalAdmin: 100}}}
	bsid := func(b *api.SRv6BindingSID) *api.Attribute {
		return &api.Attribute{Attr: &api.Attribute_TunnelEncap{TunnelEncap: &api.TunnelEncapAttribute{Tlvs: []*api.TunnelEncapTLV{{Type: 15, Tlvs: []*api.TunnelEncapTLV_TLV{
			{Tlv: &api.TunnelEncapTLV_TLV_SrBindingSid{SrBindingSid: &api.TunnelEncapSubTLVSRBindingSID{Bsid: &api.TunnelEncapSubTLVSRBindingSID_Srv6BindingSid{Srv6BindingSid: b}}}}}}}}}}
	}
	ls := func(l *api.LsAttribute) *api.Attribute { return &api.Attribute{Attr: &api.Attribute_Ls{Ls: l}} }
	type item struct {
		name string
		fam  bgp.Family // NLRI items
		msg  proto.Message
	}
	items := []item{
		{"attr/tunnel-encap/srv6-binding-sid", 0, bsid(&api.SRv6BindingSID{SFlag: true, Sid: sid16})},
		{"attr/tunnel-encap/srv6-binding-sid+behavior", 0, bsid(&api.SRv6BindingSID{BFlag: true, Sid: sid16, EndpointBehaviorStructure: &api.SRv6EndPointBehavior{Behavior: 1, BlockLen: 32, NodeLen: 16, FuncLen: 16}})},
		{"nlri/evpn-i-pmsi", bgp.RF_EVPN, &api.NLRI{Nlri: &api.NLRI_EvpnIPmsi{EvpnIPmsi: &api.EVPNIPMSIRoute{Rd: rd, EthernetTag: 1, Rt: rt}}}},
		{"attr/ls/node-flex-algo-def", 0, ls(&api.LsAttribute{Node: &api.LsAttributeNode{FlexAlgoDefs: []*api.LsAttributeFlexAlgoDef{{Algorithm: 128, MetricType: 1, MetricTypeKnown: true, Priority: 10, ExcludeAnyAffinity: []uint32{1}}}}})},
		{"attr/ls/prefix-fad-prefix-metric", 0, ls(&api.LsAttribute{Prefix: &api.LsAttributePrefix{FadPrefixMetrics: []*api.LsAttributeFADPrefixMetric{{Algorithm: 128, Metric: 10}}}})},
		{"attr/ls/prefix-two-prefix-sids", 0, ls(&api.LsAttribute{Prefix: &api.LsAttributePrefix{SrPrefixSid: 100, SrPrefixSids: []*api.LsAttributePrefixSID{{Sid: 100}, {Algorithm: 128, Sid: 200}}}})},
	}
	r.Bounds["api_first_items"] = len(items)
	for _, it := range items {
		r.Eval()
		cs := c18Case{Section: "api", Name: it.name}
		c18SeenTypes(it.msg, seen)
		var y any
		var err error
		var back proto.Message
		conv := func(m proto.Message) (any, error) {
			if a, ok := m.(*api.Attribute); ok {
				l, err := UnmarshalPathAttributes([]*api.Attribute{a})
				if err != nil || len(l) != 1 {
					return nil, err
				}
				return l[0], nil
			}
			return UnmarshalNLRI(it.fam, m.(*api.NLRI))
		}
		if p := c18Try(func() { y, err = conv(it.msg) }); p != "" {
			r.Violationf("C18:api:"+it.name+":api-native:panic:"+c18PanicSite(p), cs, "%s: %s", it.name, p)
			continue
		}
		if err != nil || y == nil || reflect.ValueOf(y).IsNil() {
			r.Violationf("C18:api:"+it.name+":api-native:rejected", cs, "%s: an API message of a type the schema defines is not convertible: %v\n  api %v", it.name, err, it.msg)
			continue
		}
		r.NT("api/" + it.name)
		if p := c18Try(func() {
			if a, ok := y.(bgp.PathAttributeInterface); ok {
				var l []*api.Attribute
				l, err = MarshalPathAttributes([]bgp.PathAttributeInterface{a})
				if err == nil && len(l) == 1 {
					back = l[0]
				}
			} else {
				var n *api.NLRI
				n, err = MarshalNLRI(y.(bgp.NLRI))
				if n != nil {
					back = n
				}
			}
		}); p != "" {
			r.Violationf("C18:api:"+it.name+":native-api:panic:"+c18PanicSite(p), cs, "%s: %s", it.name, p)
			continue
		}
		if err != nil || back == nil {
			r.Violationf("C18:api:"+it.name+":native-api:error", cs, "%s: %v", it.name, err)
			continue
		}
		if !c18EqualNorm(it.msg, back) {
			r.Violationf("C18:api:"+it.name+":api-native-api:differs:"+c18Diff(it.msg, back), cs, "%s: API -> native -> API differs at %s\n  sent %v\n  back %v", it.name, c18Diff(it.msg, back), it.msg, back)
			continue
		}
		r.Outcome("api-first:equal")
	}
}

// c18Paths: apiutil.NewPath -> GetNativeNlri / GetNativePathAttributes for every NLRI of every family
// with a representative attribute list, in structured form and in the nlri_binary/pattrs_binary form
// (the binary form is a pass-through to the bgp decoders: its oracle is agreement with them).
func c18Paths(r *vr.Report) {
	reps := func() []bgp.PathAttributeInterface {
		var l []bgp.PathAttributeInterface
		seen := map[bgp.BGPAttrType]bool{}
		for _, a := range bgpgen.AttributeReps() {
			t := a.Attr.GetType()
			if a.AS == bgpgen.AS2 || strings.HasSuffix(a.Kind, "2") || seen[t] || t == bgp.BGP_ATTR_TYPE_MP_REACH_NLRI || t == bgp.BGP_ATTR_TYPE_MP_UNREACH_NLRI {
				continue
			}
			seen[t] = true
			l = append(l, a.Attr)
		}
		return l
	}
	r.Bounds["paths"] = "every NLRI of every family x {representative attribute of every type in one list} x {structured, binary}"
	for _, nl := range bgpgen.AllNLRIs() {
		for _, form := range []string{"structured", "binary"} {
			r.Eval()
			cs := c18Case{Section: "path", Name: nl.Name, Variant: form}
			attrs := reps()
			if !c18InnerOK(nl.Family, []bgp.NLRI{nl.NLRI}) && form == "structured" {
				r.Outcome("path:skipped(NLRI has a violation of its own in the nlri section)")
				continue
			}
			var p *api.Path
			var err error
			if pn := c18Try(func() { p, err = NewPath(nl.Family, nl.NLRI, false, attrs, time.Unix(1, 0)) }); pn != "" || err != nil {
				r.Violationf("C18:path:new-path-failed:"+c18TypeName(nl.NLRI), cs, "%s: NewPath: %v %v", nl.Name, pn, err)
				continue
			}
			var wantN string
			if form == "binary" {
				b, err := nl.NLRI.Serialize()
				if err != nil {
					r.Outcome("path:native-nlri-not-serialisable")
					continue
				}
				dn, derr := bgp.NLRIFromSlice(nl.Family, b)
				if derr != nil {
					wantN = "ERR"
				} else {
					wantN = c18Bytes(func(o []*bgp.MarshallingOption) ([]byte, error) { return dn.Serialize(o...) }, nil)
				}
				p.Nlri, p.Pattrs = nil, nil
				p.NlriBinary = b
				for _, a := range attrs {
					ab, err := a.Serialize()
					if err != nil {
						continue
					}
					p.PattrsBinary = append(p.PattrsBinary, ab)
				}
			} else {
				wantN = c18Bytes(func(o []*bgp.MarshallingOption) ([]byte, error) { return nl.NLRI.Serialize(o...) }, nil)
			}
			w, err := c18Wire(p)
			if err != nil || !proto.Equal(w, p) {
				r.Violationf("C18:path:wire", cs, "%s: api.Path does not survive the protobuf wire: %v", nl.Name, err)
				continue
			}
			var n2 bgp.NLRI
			var a2 []bgp.PathAttributeInterface
			var e1, e2 error
			if pn := c18Try(func() { n2, e1 = GetNativeNlri(w.(*api.Path)); a2, e2 = GetNativePathAttributes(w.(*api.Path)) }); pn != "" {
				r.Violationf("C18:path:panic:"+c18PanicSite(pn), cs, "%s: %s", nl.Name, pn)
				continue
			}
			gotN := "ERR"
			if e1 == nil {
				gotN = c18Bytes(func(o []*bgp.MarshallingOption) ([]byte, error) { return n2.Serialize(o...) }, nil)
			}
			if e2 != nil {
				r.Violationf("C18:path:"+form+":attributes-rejected", cs, "%s (%s): GetNativePathAttributes err=%v", nl.Name, form, e2)
				continue
			}
			if gotN != wantN {
				r.Violationf("C18:path:"+form+":nlri-differs:"+c18TypeName(nl.NLRI), cs, "%s (%s): want %s got %s (err=%v)", nl.Name, form, wantN, gotN, e1)
				continue
			}
			if gotN == "ERR" {
				r.Outcome("path:binary:decoder-rejects-its-own-bytes(agrees with bgp.NLRIFromSlice; C04 territory)")
				continue
			}
			r.NT("path/" + nl.Name + "/" + form)
			fresh := reps()
			bad := len(a2) != len(fresh)
			if bad {
				r.Violationf("C18:path:"+form+":attr-count", cs, "%s (%s): %d attributes became %d", nl.Name, form, len(fresh), len(a2))
			}
			for i := 0; !bad && i < len(fresh); i++ {
				x1, _ := fresh[i].Serialize()
				x2, _ := a2[i].Serialize()
				if !bytes.Equal(x1, x2) {
					if form == "structured" {
						// is it the attribute's own violation (attr section)?
						l, err := MarshalPathAttributes([]bgp.PathAttributeInterface{fresh[i]})
						if err == nil {
							if back, err := UnmarshalPathAttributes(l); err == nil && len(back) == 1 {
								if y, _ := back[0].Serialize(); bytes.Equal(y, x2) {
									r.Outcome("path:structured:attribute-has-own-violation(attr section)")
									continue
								}
							}
						}
					}
					bad = true
					r.Violationf("C18:path:"+form+":attr-bytes-differ:"+c18TypeName(fresh[i]), cs, "%s (%s): attribute %d %x -> %x", nl.Name, form, i, x1, x2)
				}
			}
			if !bad {
				r.Outcome("path:" + form + ":equal")
			}
		}
	}
}
