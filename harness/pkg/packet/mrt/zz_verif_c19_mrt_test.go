package mrt

// C19 (part mrt) — the MRT codec (RFC 6396/6397/8050) decodes safely and round-trips.

import (
	"bytes"
	"encoding/binary"
	"encoding/json"
	"fmt"
	"math"
	"net/netip"
	"strings"
	"testing"
	"time"

	"github.com/osrg/gobgp/v4/internal/verif/c19lib"
	"github.com/osrg/gobgp/v4/internal/verif/vr"
	"github.com/osrg/gobgp/v4/pkg/packet/bgp"
)

// ---- decoder entry points ----

func c19Render(msg *MRTMessage) string {
	var sb strings.Builder
	if s, ok := msg.Body.(fmt.Stringer); ok {
		// BGP4MPMessage.String prints the *bgp.BGPMessage with %v, i.e. pointer values: scrubbed
		sb.WriteString(c19lib.Scrub(s.String()))
	}
	j, jerr := json.Marshal(msg)
	sb.WriteString("|")
	sb.Write(j)
	if jerr != nil {
		sb.WriteString("|jsonerr")
	}
	b, err := msg.Serialize()
	fmt.Fprintf(&sb, "|%x|%v", b, err)
	return sb.String()
}

func c19BodyName(t MRTType, s uint16) string {
	return fmt.Sprintf("mrt.ParseBody[type=%d,subtype=%d]", t, s)
}

func c19BodyEntry(t MRTType, s uint16) *c19lib.Entry {
	return &c19lib.Entry{
		Name: c19BodyName(t, s),
		Run: func(x *c19lib.Checker, data []byte) c19lib.Outcome {
			h := &MRTHeader{Type: t, SubType: s, Len: uint32(len(data))}
			msg, err := ParseBody(data, h)
			if err != nil {
				return c19lib.Outcome{Err: err.Error()}
			}
			return c19lib.Outcome{OK: true, Val: c19Render(msg)}
		},
	}
}

func c19SplitEntry(atEOF bool) *c19lib.Entry {
	name := fmt.Sprintf("mrt.SplitMrt[atEOF=%v]", atEOF)
	return &c19lib.Entry{
		Name:  name,
		Group: "mrt.SplitMrt",
		Run: func(x *c19lib.Checker, data []byte) c19lib.Outcome {
			adv, tok, err := SplitMrt(data, atEOF)
			if adv < 0 || adv > len(data) {
				x.Violation("C19:splitter-advance-beyond-data:SplitMrt", "advance=%d with %d bytes of data", adv, len(data))
			}
			if len(tok) > len(data) {
				x.Violation("C19:splitter-token-longer-than-data:SplitMrt", "token of %d bytes from %d bytes of data", len(tok), len(data))
			}
			if tok != nil && adv == 0 && err == nil {
				x.Violation("C19:splitter-no-progress:SplitMrt", "returned a (%d-byte) token with advance 0: a bufio.Scanner delivers it forever", len(tok))
			}
			if tok == nil && adv == 0 && err == nil {
				return c19lib.Outcome{Err: "need more data"}
			}
			o := c19lib.Outcome{OK: tok != nil, Val: fmt.Sprintf("adv=%d tok=%x", adv, tok)}
			if err != nil {
				o.Err = err.Error()
			} else if tok == nil {
				o.Err = "need more data"
			} else if len(tok) < MRT_COMMON_HEADER_LEN {
				o.Err = "token shorter than an MRT header"
			}
			return o
		},
	}
}

var c19TD2Sub = []uint16{0, 1, 2, 3, 4, 5, 6, 7, 8, 9, 10, 11, 12, 13}
var c19B4Sub = []uint16{0, 1, 2, 4, 5, 6, 7, 8, 9, 10, 11, 12}

func c19Entries() (all []*c19lib.Entry, byName map[string]*c19lib.Entry) {
	all = append(all,
		&c19lib.Entry{
			Name: "mrt.ParseHeader",
			Run: func(x *c19lib.Checker, data []byte) c19lib.Outcome {
				h, err := ParseHeader(data)
				if err != nil {
					return c19lib.Outcome{Err: err.Error()}
				}
				b, serr := h.Serialize()
				return c19lib.Outcome{OK: true, Val: fmt.Sprintf("%+v|%d|%x|%v", *h, h.GetTime().UnixNano(), b, serr)}
			},
		},
		&c19lib.Entry{
			Name: "mrt.ParseRecord", // ParseHeader, then ParseBody on the rest (what cmd/gobgp and bufio users do)
			Run: func(x *c19lib.Checker, data []byte) c19lib.Outcome {
				h, err := ParseHeader(data)
				if err != nil {
					return c19lib.Outcome{Err: err.Error()}
				}
				hl := MRT_COMMON_HEADER_LEN
				if h.Type.HasExtendedTimestamp() {
					hl = 16
				}
				msg, err := ParseBody(data[hl:], h)
				if err != nil {
					return c19lib.Outcome{Err: err.Error()}
				}
				return c19lib.Outcome{OK: true, Val: c19Render(msg)}
			},
		},
		c19SplitEntry(false), c19SplitEntry(true),
	)
	for _, s := range c19TD2Sub {
		all = append(all, c19BodyEntry(TABLE_DUMPv2, s))
	}
	for _, s := range c19B4Sub {
		all = append(all, c19BodyEntry(BGP4MP, s))
	}
	all = append(all, c19BodyEntry(BGP4MP_ET, 4), c19BodyEntry(TABLE_DUMP, 1), c19BodyEntry(0, 0), c19BodyEntry(0xffff, 0xffff))
	byName = map[string]*c19lib.Entry{}
	for _, e := range all {
		byName[e.Name] = e
	}
	return
}

// ---- constructible messages ----

type c19Msg struct {
	name string
	sub  string // "type/subtype" label (seed selection, statistics)
	kind string // violation-key class
	mk   func() (*MRTMessage, error)
}

// c19Kind maps a type/subtype label to the class used in violation keys (one per record family, so
// that one root cause does not produce a key per subtype).
func c19Kind(sub string) string {
	switch {
	case strings.HasPrefix(sub, "RIB"):
		return "RIB"
	case strings.HasPrefix(sub, "BGP4MP[type=17"):
		return "BGP4MP_ET"
	case strings.HasPrefix(sub, "BGP4MP[type=16,subtype=0]"), strings.HasPrefix(sub, "BGP4MP[type=16,subtype=5]"):
		return "BGP4MP_STATE_CHANGE"
	case strings.HasPrefix(sub, "BGP4MP[type=16,subtype=8]"), strings.HasPrefix(sub, "BGP4MP[type=16,subtype=9]"),
		strings.HasPrefix(sub, "BGP4MP[type=16,subtype=10]"), strings.HasPrefix(sub, "BGP4MP[type=16,subtype=11]"):
		return "BGP4MP_MESSAGE_ADDPATH"
	case strings.HasPrefix(sub, "BGP4MP[type=16"):
		return "BGP4MP_MESSAGE"
	}
	return sub
}

func c19A(s string) netip.Addr { return netip.MustParseAddr(s) }

func c19Prefix(s string) *bgp.IPAddrPrefix {
	p, err := bgp.NewIPAddrPrefix(netip.MustParsePrefix(s))
	if err != nil {
		panic(err)
	}
	return p
}

// c19BGPMsgs: as4 = the record's subtype is one of the *_AS4 ones. RFC 6396 4.4.2: in the other subtypes the
// AS_PATH of the embedded message is in the 2-octet encoding (what a 2-octet session carries on the wire).
func c19BGPMsgs(as4 bool) map[string]func() *bgp.BGPMessage {
	asp := func() bgp.PathAttributeInterface {
		if !as4 {
			return bgp.NewPathAttributeAsPath([]bgp.AsPathParamInterface{bgp.NewAsPathParam(bgp.BGP_ASPATH_ATTR_TYPE_SEQ, []uint16{65001, 23456})})
		}
		return bgp.NewPathAttributeAsPath([]bgp.AsPathParamInterface{bgp.NewAs4PathParam(bgp.BGP_ASPATH_ATTR_TYPE_SEQ, []uint32{65001, 4200000000})})
	}
	return map[string]func() *bgp.BGPMessage{
		"keepalive": func() *bgp.BGPMessage { return bgp.NewBGPKeepAliveMessage() },
		"open": func() *bgp.BGPMessage {
			m, err := bgp.NewBGPOpenMessage(65001, 90, c19A("192.0.2.1"), []bgp.OptionParameterInterface{
				bgp.NewOptionParameterCapability([]bgp.ParameterCapabilityInterface{
					bgp.NewCapMultiProtocol(bgp.RF_IPv4_UC), bgp.NewCapRouteRefresh(), bgp.NewCapFourOctetASNumber(4200000000),
					bgp.NewCapAddPath([]*bgp.CapAddPathTuple{bgp.NewCapAddPathTuple(bgp.RF_IPv4_UC, bgp.BGP_ADD_PATH_BOTH)}),
				})})
			if err != nil {
				panic(err)
			}
			return m
		},
		"open-noopt": func() *bgp.BGPMessage {
			m, _ := bgp.NewBGPOpenMessage(0, 0, c19A("0.0.0.0"), nil)
			return m
		},
		"update4": func() *bgp.BGPMessage {
			nh, _ := bgp.NewPathAttributeNextHop(c19A("192.0.2.1"))
			return bgp.NewBGPUpdateMessage([]bgp.PathNLRI{{NLRI: c19Prefix("10.9.0.0/16")}},
				[]bgp.PathAttributeInterface{bgp.NewPathAttributeOrigin(0), asp(), nh, bgp.NewPathAttributeMultiExitDisc(5), bgp.NewPathAttributeLocalPref(100)},
				[]bgp.PathNLRI{{NLRI: c19Prefix("10.1.0.0/24")}, {NLRI: c19Prefix("0.0.0.0/0")}})
		},
		"update4-pathid": func() *bgp.BGPMessage {
			nh, _ := bgp.NewPathAttributeNextHop(c19A("192.0.2.1"))
			return bgp.NewBGPUpdateMessage(nil,
				[]bgp.PathAttributeInterface{bgp.NewPathAttributeOrigin(0), asp(), nh},
				[]bgp.PathNLRI{{NLRI: c19Prefix("10.1.0.0/24"), ID: 7}})
		},
		"update6": func() *bgp.BGPMessage {
			mp, err := bgp.NewPathAttributeMpReachNLRI(bgp.RF_IPv6_UC, []bgp.PathNLRI{{NLRI: c19Prefix("2001:db8:1::/48")}}, c19A("2001:db8::1"))
			if err != nil {
				panic(err)
			}
			return bgp.NewBGPUpdateMessage(nil, []bgp.PathAttributeInterface{bgp.NewPathAttributeOrigin(2), asp(), mp}, nil)
		},
		"eor":          func() *bgp.BGPMessage { return bgp.NewBGPUpdateMessage(nil, nil, nil) },
		"notification": func() *bgp.BGPMessage { return bgp.NewBGPNotificationMessage(6, 2, []byte{1, 2, 3}) },
		"notif-nodata": func() *bgp.BGPMessage { return bgp.NewBGPNotificationMessage(4, 0, nil) },
		"routerefresh": func() *bgp.BGPMessage { return bgp.NewBGPRouteRefreshMessage(1, 0, 1) },
	}
}

var c19BGPOrder = []string{"keepalive", "open", "open-noopt", "update4", "update4-pathid", "update6", "eor", "notification", "notif-nodata", "routerefresh"}

func c19Attrs(family bgp.Family, prefix bgp.NLRI, id uint32, rich bool) []bgp.PathAttributeInterface {
	attrs := []bgp.PathAttributeInterface{bgp.NewPathAttributeOrigin(1)}
	attrs = append(attrs, bgp.NewPathAttributeAsPath([]bgp.AsPathParamInterface{bgp.NewAs4PathParam(bgp.BGP_ASPATH_ATTR_TYPE_SEQ, []uint32{65001, 4200000000})}))
	switch family {
	case bgp.RF_IPv4_UC, bgp.RF_IPv4_MC:
		nh, _ := bgp.NewPathAttributeNextHop(c19A("192.0.2.1"))
		attrs = append(attrs, nh)
	case bgp.RF_IPv6_UC, bgp.RF_IPv6_MC:
		mp, err := bgp.NewPathAttributeMpReachNLRI(family, []bgp.PathNLRI{{NLRI: prefix, ID: id}}, c19A("2001:db8::1"))
		if err != nil {
			panic(err)
		}
		attrs = append(attrs, mp)
	default:
		mp, err := bgp.NewPathAttributeMpReachNLRI(family, []bgp.PathNLRI{{NLRI: prefix, ID: id}}, c19A("192.0.2.1"))
		if err != nil {
			panic(err)
		}
		attrs = append(attrs, mp)
	}
	if rich {
		attrs = append(attrs, bgp.NewPathAttributeMultiExitDisc(0xffffffff), bgp.NewPathAttributeLocalPref(0), bgp.NewPathAttributeCommunities([]uint32{0xffff0001, 0}))
	}
	return attrs
}

func c19Constructible() []c19Msg {
	var out []c19Msg
	add := func(sub, name string, mk func() (*MRTMessage, error)) {
		out = append(out, c19Msg{name, sub, c19Kind(sub), mk})
	}
	stamps := []time.Time{time.Unix(0, 0), time.Unix(1, 999999000), time.Unix(0xffffffff, 0)}
	stampName := []string{"t0", "t1.999999", "tmax"}

	// PEER_INDEX_TABLE
	type pd struct {
		id, ip string
		as     uint32
		as4    bool
	}
	peerSets := map[string][]pd{
		"nopeers": nil,
		"v4as2":   {{"192.0.2.1", "10.0.0.1", 65535, false}},
		"v6as4":   {{"0.0.0.0", "2001:db8::1", 0xffffffff, true}},
		"mixed":   {{"192.0.2.1", "10.0.0.1", 0, false}, {"192.0.2.2", "2001:db8::2", 65535, false}, {"192.0.2.3", "10.0.0.3", 65536, true}, {"255.255.255.255", "::", 1, true}},
	}
	for _, ps := range []string{"nopeers", "v4as2", "v6as4", "mixed"} {
		for vi, view := range []string{"", "v", strings.Repeat("view", 75)} {
			for _, id := range []string{"0.0.0.0", "192.0.2.254"} {
				for ti, ts := range stamps {
					add("PEER_INDEX_TABLE", fmt.Sprintf("PeerIndexTable(%s,view#%d,%s,%s)", id, vi, ps, stampName[ti]), func() (*MRTMessage, error) {
						var peers []*Peer
						for _, p := range peerSets[ps] {
							peers = append(peers, NewPeer(c19A(p.id), c19A(p.ip), p.as, p.as4))
						}
						return NewMRTMessage(ts, TABLE_DUMPv2, PEER_INDEX_TABLE, NewPeerIndexTable(c19A(id), view, peers))
					})
				}
			}
		}
	}
	// a 2-octet peer with an AS beyond 65535 is rejected by Peer.Serialize: not constructible
	add("PEER_INDEX_TABLE", "PeerIndexTable(as2 peer with AS 65536)", func() (*MRTMessage, error) {
		return NewMRTMessage(stamps[0], TABLE_DUMPv2, PEER_INDEX_TABLE, NewPeerIndexTable(c19A("192.0.2.1"), "", []*Peer{NewPeer(c19A("192.0.2.1"), c19A("10.0.0.1"), 65536, false)}))
	})

	// RIB_* (TABLE_DUMPv2 subtypes 2..6, 8..12)
	vpn, err := bgp.NewLabeledVPNIPAddrPrefix(netip.MustParsePrefix("10.77.0.0/16"), *bgp.NewMPLSLabelStack(100), bgp.NewRouteDistinguisherTwoOctetAS(65000, 1))
	if err != nil {
		panic(err)
	}
	type rd struct {
		st     MRTSubTypeTableDumpv2
		family bgp.Family
		prefix []bgp.NLRI
	}
	ribs := []rd{
		{RIB_IPV4_UNICAST, bgp.RF_IPv4_UC, []bgp.NLRI{c19Prefix("10.1.0.0/24"), c19Prefix("0.0.0.0/0"), c19Prefix("255.255.255.255/32")}},
		{RIB_IPV4_MULTICAST, bgp.RF_IPv4_MC, []bgp.NLRI{c19Prefix("224.1.0.0/16")}},
		{RIB_IPV6_UNICAST, bgp.RF_IPv6_UC, []bgp.NLRI{c19Prefix("2001:db8:1::/48"), c19Prefix("::/0"), c19Prefix("2001:db8::1/128")}},
		{RIB_IPV6_MULTICAST, bgp.RF_IPv6_MC, []bgp.NLRI{c19Prefix("ff0e::/16")}},
		{RIB_GENERIC, bgp.RF_IPv4_VPN, []bgp.NLRI{vpn}},
	}
	for _, rb := range ribs {
		for _, addPath := range []bool{false, true} {
			st := rb.st
			if addPath {
				st += 6
			}
			ids := []uint32{0}
			if addPath {
				ids = []uint32{0, 1, 0xffffffff}
			}
			for pi, prefix := range rb.prefix {
				for _, id := range ids {
					for _, nent := range []int{1, 2} {
						for _, rich := range []bool{false, true} {
							for _, idx := range []uint16{0, 0xffff} {
								add(fmt.Sprintf("RIB[subtype=%d]", st), fmt.Sprintf("Rib(subtype=%d,%s,prefix#%d,pathid=%d,entries=%d,rich=%v,peeridx=%d)", st, rb.family, pi, id, nent, rich, idx), func() (*MRTMessage, error) {
									var es []*RibEntry
									for k := 0; k < nent; k++ {
										es = append(es, NewRibEntry(idx, uint32(k)*0xffffffff, id, c19Attrs(rb.family, prefix, id, rich), addPath))
									}
									return NewMRTMessage(stamps[1], TABLE_DUMPv2, st, NewRib(7, rb.family, prefix, es))
								})
							}
						}
					}
				}
			}
		}
	}

	// GEO_PEER_TABLE (RFC 6397)
	coords := []float32{0, -90.5, 180, float32(math.Inf(1)), float32(math.NaN())}
	for ci, lat := range coords {
		for _, np := range []int{0, 1, 3} {
			add("GEO_PEER_TABLE", fmt.Sprintf("GeoPeerTable(coord#%d,peers=%d)", ci, np), func() (*MRTMessage, error) {
				var ps []*GeoPeer
				for k := 0; k < np; k++ {
					p, err := NewGeoPeer(c19A(fmt.Sprintf("192.0.2.%d", k)), lat, coords[(ci+k)%len(coords)])
					if err != nil {
						return nil, err
					}
					ps = append(ps, p)
				}
				t, err := NewGeoPeerTable(c19A("10.0.0.1"), coords[(ci+1)%len(coords)], lat, ps)
				if err != nil {
					return nil, err
				}
				return NewMRTMessage(stamps[0], TABLE_DUMPv2, GEO_PEER_TABLE, t)
			})
		}
	}

	// BGP4MP / BGP4MP_ET
	type ipp struct{ p, l string }
	ips := []ipp{{"10.0.0.1", "10.0.0.2"}, {"2001:db8::1", "2001:db8::2"}}
	type asp struct{ p, l uint32 }
	for _, mt := range []MRTType{BGP4MP, BGP4MP_ET} {
		for _, as4 := range []bool{false, true} {
			ases := []asp{{0, 0}, {65535, 65001}}
			if as4 {
				ases = append(ases, asp{65536, 0xffffffff})
			}
			for _, as := range ases {
				for _, ip := range ips {
					for _, intf := range []uint16{0, 0xffff} {
						for _, st := range [][2]BGPState{{IDLE, CONNECT}, {OPENCONFIRM, ESTABLISHED}, {0, 0xffff}} {
							sub := STATE_CHANGE
							if as4 {
								sub = STATE_CHANGE_AS4
							}
							add(fmt.Sprintf("BGP4MP[type=%d,subtype=%d]", mt, sub), fmt.Sprintf("StateChange(type=%d,as4=%v,as=%d/%d,%s,intf=%d,%d->%d)", mt, as4, as.p, as.l, ip.p, intf, st[0], st[1]), func() (*MRTMessage, error) {
								b, err := NewBGP4MPStateChange(as.p, as.l, intf, c19A(ip.p), c19A(ip.l), as4, st[0], st[1])
								if err != nil {
									return nil, err
								}
								return NewMRTMessage(stamps[1], mt, sub, b)
							})
						}
					}
					for _, bn := range c19BGPOrder {
						for variant := 0; variant < 4; variant++ {
							local, addPath := variant&1 != 0, variant&2 != 0
							sub := MESSAGE
							switch {
							case !as4 && !local && !addPath:
								sub = MESSAGE
							case as4 && !local && !addPath:
								sub = MESSAGE_AS4
							case !as4 && local && !addPath:
								sub = MESSAGE_LOCAL
							case as4 && local && !addPath:
								sub = MESSAGE_AS4_LOCAL
							case !as4 && !local && addPath:
								sub = MESSAGE_ADDPATH
							case as4 && !local && addPath:
								sub = MESSAGE_AS4_ADDPATH
							case !as4 && local && addPath:
								sub = MESSAGE_LOCAL_ADDPATH
							case as4 && local && addPath:
								sub = MESSAGE_AS4_LOCAL_ADDPATH
							}
							if bn == "update4-pathid" && !addPath {
								continue // a path identifier only exists in the ADD-PATH subtypes
							}
							add(fmt.Sprintf("BGP4MP[type=%d,subtype=%d]", mt, sub), fmt.Sprintf("Message(type=%d,subtype=%d,as=%d/%d,%s,%s)", mt, sub, as.p, as.l, ip.p, bn), func() (*MRTMessage, error) {
								mk := NewBGP4MPMessage
								switch {
								case local && addPath:
									mk = NewBGP4MPMessageLocalAddPath
								case local:
									mk = NewBGP4MPMessageLocal
								case addPath:
									mk = NewBGP4MPMessageAddPath
								}
								b, err := mk(as.p, as.l, 1, c19A(ip.p), c19A(ip.l), as4, c19BGPMsgs(as4)[bn]())
								if err != nil {
									return nil, err
								}
								return NewMRTMessage(stamps[1], mt, sub, b)
							})
						}
					}
				}
			}
		}
	}
	// 2-octet subtypes given an AS beyond 65535 (the header serialiser narrows silently)
	add("BGP4MP-as2-narrowing", "StateChange(as4=false, AS 65536)", func() (*MRTMessage, error) {
		b, err := NewBGP4MPStateChange(65536, 65001, 0, c19A("10.0.0.1"), c19A("10.0.0.2"), false, IDLE, CONNECT)
		if err != nil {
			return nil, err
		}
		return NewMRTMessage(stamps[0], BGP4MP, STATE_CHANGE, b)
	})
	return out
}

func c19RoundTrip(r *vr.Report, c c19Msg) {
	r.Eval()
	cs := c19lib.RTCase{Kind: "roundtrip", Name: c.name}
	var m *MRTMessage
	var b1 []byte
	var err error
	if k, msg := c19lib.Guard(func() {
		m, err = c.mk()
		if err == nil {
			b1, err = m.Serialize()
		}
	}); k != "" {
		r.Violationf("C19:panic:"+k, cs, "%s: construct/Serialize: %s", c.name, msg)
		return
	}
	if err != nil {
		r.Outcome("roundtrip: not constructible: " + c.sub)
		return
	}
	var m2 *MRTMessage
	if k, msg := c19lib.Guard(func() {
		var h *MRTHeader
		h, err = ParseHeader(b1)
		if err != nil {
			return
		}
		hl := MRT_COMMON_HEADER_LEN
		if h.Type.HasExtendedTimestamp() {
			hl = 16
		}
		m2, err = ParseBody(b1[hl:], h)
	}); k != "" {
		r.Violationf("C19:panic:"+k, cs, "%s: parse of %x: %s", c.name, b1, msg)
		return
	}
	if err != nil {
		r.Violationf("C19:roundtrip:mrt:reparse-error:"+c.kind, cs, "%s serialises to %x which does not parse back: %v", c.name, b1, err)
		return
	}
	// normalisation: the header Length cached inside an MP_REACH/MP_UNREACH attribute object is a derived
	// wire detail that depends on the encoding in force (RFC 6396 4.3.4 abbreviates MP_REACH_NLRI inside a
	// RIB entry to the next hop; in the *_ADDPATH subtypes every NLRI grows by its 4-octet path
	// identifier): the constructor caches one value, the parser another. The attribute content and the
	// re-serialised bytes are compared.
	zeroLen := func(attrs []bgp.PathAttributeInterface) {
		for _, a := range attrs {
			switch mp := a.(type) {
			case *bgp.PathAttributeMpReachNLRI:
				mp.Length = 0
			case *bgp.PathAttributeMpUnreachNLRI:
				mp.Length = 0
			}
		}
	}
	for _, mm := range []*MRTMessage{m, m2} {
		switch b := mm.Body.(type) {
		case *Rib:
			for _, e := range b.Entries {
				zeroLen(e.PathAttributes)
			}
		case *BGP4MPMessage:
			if u, ok := b.BGPMessage.Body.(*bgp.BGPUpdate); ok && b.isAddPath {
				zeroLen(u.PathAttributes)
			}
		}
	}
	if ok, path := c19lib.Equal(m, m2); !ok {
		r.Violationf("C19:roundtrip:mrt:not-equal:"+c.kind, cs, "%s -> %x -> parsed message differs at %s", c.name, b1, path)
		return
	}
	b2, err := m2.Serialize()
	if err != nil || !bytes.Equal(b1, b2) {
		r.Violationf("C19:roundtrip:mrt:reserialise-differs:"+c.kind, cs, "%s: %x vs %x (%v)", c.name, b1, b2, err)
		return
	}
	r.NT("rt|" + c.name)
	r.Outcome("roundtrip: equal: " + c.sub)
}

// ---- stream splitting through a real bufio.Scanner ----

// c19RefSplit is the RFC 6396 section 2 framing: 12-byte common header whose last four bytes are the
// length of what follows. Returns the complete records at the head of the stream.
func c19RefSplit(stream []byte) [][]byte {
	var out [][]byte
	for len(stream) >= 12 {
		l := uint64(binary.BigEndian.Uint32(stream[8:12])) + 12
		if uint64(len(stream)) < l {
			break
		}
		out = append(out, stream[:l])
		stream = stream[l:]
	}
	return out
}

func TestVerif_C19_MRT(t *testing.T) {
	r := vr.Start(t, "C19", "mrt")
	defer r.Finish()
	r.Rule = "decoder: every byte string over the stated alphabets/lengths at ParseHeader, SplitMrt(atEOF f/t), ParseRecord and ParseBody for every TABLE_DUMPv2/BGP4MP subtype; every fault-catalogue mutant (byte x 256 values, truncations, appended byte, every 16/32-bit window x length-fault values; thorough: pairs) and garbage tails at every cut position of one serialised record per constructible message class, fed as a record (ParseRecord, SplitMrt) and as a body (matching ParseBody), each executed with cap==len and with 96 poison bytes (00, ff) behind the data; non-trivial = a value/token was returned (then String/json.Marshal/Serialize were exercised). streams: 1-3 concatenated records and their single-fault mutants through a real bufio.Scanner for every chunk size, compared with RFC 6396 framing. round trip: every constructor combination over boundary domains -> Serialize -> ParseHeader+ParseBody -> structurally equal (nil==empty slice) -> identical bytes"
	entries, byName := c19Entries()
	cons := c19Constructible()
	if r.ReplayPath() != "" {
		var raw map[string]any
		if err := r.LoadReplay(&raw); err != nil {
			t.Fatal(err)
		}
		switch raw["kind"] {
		case "roundtrip":
			for _, c := range cons {
				if c.name == raw["name"] {
					c19RoundTrip(r, c)
				}
			}
		case "stream":
			var cs c19lib.StreamCase
			r.LoadReplay(&cs)
			c19lib.ScanStream(r, "SplitMrt", SplitMrt, c19RefSplit, MRT_COMMON_HEADER_LEN, c19lib.UnHex(cs.Hex), cs.Chunk, cs.Note)
		default:
			c19lib.ReplayDecoder(r, entries)
		}
		return
	}
	stop := c19lib.Watchdog(r, 3*time.Minute)
	defer stop()
	W := vr.Workers()

	// round trip first (it also yields the seeds)
	r.Bounds["rt_constructible_messages"] = len(cons)
	r.Parallel(W, func(w int, cr *vr.Report) {
		for i, c := range cons {
			if i%W != w {
				continue
			}
			c19RoundTrip(cr, c)
			if cr.WantSample() && i%211 == 0 {
				cr.Sample(c19lib.RTCase{Kind: "roundtrip", Name: c.name})
			}
		}
	})

	// seeds: the first and last constructible message of every class, as record and as body
	var seeds []c19lib.Seed
	var records [][]byte
	first, last := map[string]int{}, map[string]int{}
	for i, c := range cons {
		if _, ok := first[c.sub]; !ok {
			first[c.sub] = i
		}
		last[c.sub] = i
	}
	picked := map[int]bool{}
	for i, c := range cons {
		// quick: the last (richest) constructible message of every type/subtype; thorough: also the first
		if !(last[c.sub] == i || vr.Thorough() && first[c.sub] == i) || picked[i] {
			continue
		}
		picked[i] = true
		m, err := c.mk()
		if err != nil {
			continue
		}
		b, err := m.Serialize()
		if err != nil {
			continue
		}
		records = append(records, b)
		seeds = append(seeds, c19lib.Seed{Name: "record:" + c.name, Data: b, Entries: []*c19lib.Entry{byName["mrt.ParseRecord"], byName["mrt.SplitMrt[atEOF=false]"], byName["mrt.SplitMrt[atEOF=true]"]}})
		hl := 12
		if m.Header.Type.HasExtendedTimestamp() {
			hl = 16
		}
		if e := byName[c19BodyName(m.Header.Type, m.Header.SubType)]; e != nil {
			seeds = append(seeds, c19lib.Seed{Name: "body:" + c.name, Data: b[hl:], Entries: []*c19lib.Entry{e}})
		}
	}
	seeds = append(seeds, c19lib.Seed{Name: "header", Data: records[0][:12], Entries: []*c19lib.Entry{byName["mrt.ParseHeader"]}})

	// Quick: the full alphabet up to length 3 only at the header/splitter entry points (no body parser
	// accepts fewer than 4 bytes: every <=3-byte string is rejected by its first length check); the
	// ParseBody entry points get the full alphabet up to length 2 and the boundary alphabet up to 3.
	// Thorough: full alphabet up to 3 everywhere, boundary alphabet up to 4.
	primary := []*c19lib.Entry{byName["mrt.ParseHeader"], byName["mrt.SplitMrt[atEOF=false]"], byName["mrt.SplitMrt[atEOF=true]"]}
	plan := &c19lib.Plan{
		Entries:  primary,
		StrAlpha: c19lib.FullAlphabet(), StrMaxLen: 3,
		Groups: []c19lib.StrGroup{
			{Label: "full<=2", Entries: entries, Alpha: c19lib.FullAlphabet(), MaxLen: 2},
			{Label: "boundary<=3", Entries: entries, Alpha: c19lib.Boundary, MaxLen: 3},
		},
		Seeds: seeds, Opt: c19lib.MutOpt{PairStride: 1},
		TailFull: 1,
	}
	if vr.Thorough() {
		// thorough: the primary entry points keep all three executions; the others get the full alphabet
		// up to length 3 with cap==len only (1.8 G calls otherwise) and the boundary alphabet up to 4 in all modes
		var secondary []*c19lib.Entry
		isPrimary := map[*c19lib.Entry]bool{}
		for _, e := range primary {
			isPrimary[e] = true
		}
		for _, e := range entries {
			if !isPrimary[e] {
				c := *e
				c.TightOnly = true
				secondary = append(secondary, &c)
			}
		}
		plan.Groups = []c19lib.StrGroup{
			{Label: "secondary full<=3 cap==len", Entries: secondary, Alpha: c19lib.FullAlphabet(), MaxLen: 3},
			{Label: "boundary<=4", Entries: entries, Alpha: c19lib.Boundary, MaxLen: 4},
		}
		plan.Opt = c19lib.MutOpt{AllByteValues: true, Pairs: true, PairStride: 3}
		plan.TailFull, plan.TailBoundary = 1, 2 // full-alphabet tails of length 2 are 6 M cases per seed: unaffordable
		// fault pairs: only for the record seed that is the last (richest) of its violation class
		lastOfKind := map[string]string{}
		for _, c := range cons {
			lastOfKind[c.kind] = "record:" + c.name
		}
		keep := map[string]bool{}
		for _, n := range lastOfKind {
			keep[n] = true
		}
		for i := range plan.Seeds {
			plan.Seeds[i].NoPairs = !keep[plan.Seeds[i].Name]
		}
		r.Bounds["mutation_pairs_seeds"] = len(keep)
	}
	plan.Run(r)
	r.Sample(c19lib.Case{Entry: "mrt.ParseRecord", Hex: c19lib.Hex(records[0]), Note: "seed " + seeds[0].Name})

	// streams through bufio.Scanner
	var streams [][]byte
	var snotes []string
	for i := 0; i < len(records); i++ {
		streams = append(streams, records[i])
		snotes = append(snotes, fmt.Sprintf("record#%d", i))
		if i+1 < len(records) && len(records[i])+len(records[i+1]) < 400 {
			streams = append(streams, append(append([]byte{}, records[i]...), records[i+1]...))
			snotes = append(snotes, fmt.Sprintf("record#%d+#%d", i, i+1))
		}
	}
	three := append(append(append([]byte{}, records[0]...), records[1]...), records[0]...)
	streams = append(streams, three)
	snotes = append(snotes, "record#0+#1+#0")
	chunks := []int{1, 7, 12, 13, 1 << 20}
	maxStream := 160
	if vr.Thorough() {
		chunks = []int{1, 2, 3, 5, 7, 11, 12, 13, 16, 31, 64, 1 << 20}
		maxStream = 400
	}
	c19lib.ScanStreams(r, "SplitMrt", SplitMrt, c19RefSplit, MRT_COMMON_HEADER_LEN, streams, snotes, chunks, maxStream)
}
