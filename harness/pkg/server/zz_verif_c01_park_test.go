package server

// C01 part "park" — the export / RIB oracles of parts sim (C01: every peer has been told exactly the current
// export of the Loc-RIB; C02: the RIBs hold exactly the latest un-withdrawn route per source) evaluated after
// histories in which ONE goroutine of the daemon was held at one of its own log records or connection
// operations (park sites, DESIGN 11.2) while later events of the history were applied - an UPDATE still in the
// hands of a receive goroutine while the session it belongs to goes down and comes back, a state change still in
// the hands of the server loop while routes arrive, ... Per-source order is preserved by the daemon (one
// goroutine per connection), and the oracles are statements about the quiescent state, so they must hold
// whatever order the racing things took effect in.

import (
	"fmt"
	"os"
	"sort"
	"strings"
	"sync/atomic"
	"testing"
	"time"

	"github.com/osrg/gobgp/v4/internal/verif/vr"
)

type c01pCase struct {
	Cfg    string `json:"cfg"`
	Script int    `json:"script"`
	Park   int    `json:"park"` // index of the record / connection operation whose goroutine is held (-1: nobody)
	N      int    `json:"n"`    // how many further events of the script are applied while it is held
}

func (c c01pCase) String() string {
	return fmt.Sprintf("cfg %s script %d, goroutine held at site #%d while the next %d event(s) are applied", c.Cfg, c.Script, c.Park, c.N)
}

var c01pScripts = [][]simEvent{
	// two sources and an observer: announcements, a withdrawal, the source's session flaps, re-announcement
	{{Op: "ann", Bot: 0, A: 0, B: 0}, {Op: "ann", Bot: 1, A: 0, B: 1}, {Op: "wd", Bot: 0, A: 0}, {Op: "ann", Bot: 0, A: 0, B: 1},
		{Op: "down", Bot: 0}, {Op: "up", Bot: 0}, {Op: "ann", Bot: 0, A: 0, B: 0}, {Op: "wd", Bot: 1, A: 0}},
	// the observer flaps while routes change
	{{Op: "ann", Bot: 0, A: 0, B: 0}, {Op: "down", Bot: 2}, {Op: "ann", Bot: 0, A: 1, B: 1}, {Op: "up", Bot: 2},
		{Op: "wd", Bot: 0, A: 0}, {Op: "ann", Bot: 1, A: 0, B: 0}, {Op: "down", Bot: 1}},
	// a peer is deleted and added again
	{{Op: "ann", Bot: 0, A: 0, B: 0}, {Op: "ann", Bot: 1, A: 0, B: 1}, {Op: "delpeer", Bot: 0}, {Op: "addpeer", Bot: 0}, {Op: "up", Bot: 0},
		{Op: "ann", Bot: 0, A: 0, B: 1}},
	// a peer is deleted for good (nothing of it may come back), a session goes down for good
	{{Op: "ann", Bot: 0, A: 0, B: 0}, {Op: "ann", Bot: 1, A: 1, B: 0}, {Op: "ann", Bot: 0, A: 1, B: 1}, {Op: "delpeer", Bot: 0}, {Op: "wd", Bot: 1, A: 1},
		{Op: "ann", Bot: 1, A: 0, B: 1}, {Op: "down", Bot: 1}},
}

type c01pResult = simParkScriptResult

func c01pRun(t *testing.T, c c01pCase) c01pResult {
	return simParkScript(t, func() simParkScenario {
		return simScenarios["routes"]("cfg=" + c.Cfg + ";oracle=both;noapi").(*simRoutesScenario)
	}, c01pScripts[c.Script], c.Park, c.N)
}

func c01pJudge(r *vr.Report, t *testing.T, c c01pCase) c01pResult {
	r.Eval()
	res := c01pRun(t, c)
	site := "none"
	if c.Park >= 0 {
		site = "not-reached"
		if res.reached {
			site = res.parkedAt
		} else if res.skipped {
			site = "skipped-under-lock"
		}
	}
	r.NT(fmt.Sprintf("%s/%d/%s/%d", c.Cfg, c.Script, site, c.N))
	r.Outcome(fmt.Sprintf("%s:script%d:n=%d:%s", c.Cfg, c.Script, c.N, site))
	r.Transitions += int64(res.applied)
	if res.early {
		r.Outcome("held-goroutine-released-early(an event waited for it)")
	}
	if res.pn != "" {
		r.Violationf("C01:park:panic:"+simPanicSite(res.pn), c, "%s (held at %q): %s", c, res.parkedAt, res.pn)
	}
	for _, v := range res.viol {
		r.Violationf(strings.Replace(v.Key, "C01:", "C01:park:", 1)+":"+strings.ReplaceAll(strings.TrimPrefix(res.parkedAt, "log:"), " ", "-"), c, "%s (held at %q): %s", c, res.parkedAt, v.What)
	}
	return res
}

func simPanicSite(p string) string {
	if i := strings.Index(p, "\n"); i > 0 {
		p = p[:i]
	}
	if len(p) > 60 {
		p = p[:60]
	}
	return strings.ReplaceAll(p, " ", "-")
}

func TestVerif_C01_Park(t *testing.T) {
	r := vr.Start(t, "C01", "park")
	defer r.Finish()
	r.Rule = "whole daemon, three peers (configurations eee, eic, sss), four scripts (sources announce / withdraw / flap; the observer flaps while routes change; a peer is deleted and added again; a peer is deleted and a session lost for good) x every record the daemon logs and every Write / Close it issues on a connection: the goroutine emitting it held there while the next 1, 2, 3 events of the script are applied, then released, the rest of the script applied; at the quiescent end the oracles of part sim: every established peer's accumulated view = a fresh export of the Loc-RIB (C01), RIBs and Adj-RIB-Ins = the latest un-withdrawn route per source (C02); non-trivial = distinct (configuration, script, park site, n)"
	r.Assumptions = append(r.Assumptions, "park sites are the daemon's log records and its Write / Close calls on the (harness-owned) connections; sites reached with a peer's FSM lock or the table lock taken are skipped (counted in extra.skipped_under_lock)")
	if r.ReplayPath() != "" {
		var c c01pCase
		if err := r.LoadReplay(&c); err != nil {
			t.Fatal(err)
		}
		c01pJudge(r, t, c)
		return
	}
	var progress atomic.Int64
	var current atomic.Value
	go func() {
		last, since := int64(-1), time.Now()
		for {
			time.Sleep(2 * time.Second)
			if p := progress.Load(); p != last {
				last, since = p, time.Now()
				continue
			}
			if time.Since(since) > 90*time.Second {
				r.Cap(fmt.Sprintf("case never became quiescent (wall-clock watchdog, 90 s): %v; the exploration stopped there", current.Load()))
				r.Finish()
				os.Exit(0)
			}
		}
	}()
	run := func(c c01pCase) c01pResult {
		current.Store(c.String())
		res := c01pJudge(r, t, c)
		progress.Add(1)
		return res
	}
	sites := map[string]bool{}
	occ, skipped := 0, 0
	cfgs := []string{"eee", "eic"}
	if vr.Thorough() {
		cfgs = []string{"eee", "eic", "sss", "eei", "iic"}
	}
	for _, cfg := range cfgs {
		for s := range c01pScripts {
			base := run(c01pCase{Cfg: cfg, Script: s, Park: -1})
			k := base.records
			for p := 0; p < k+4; p++ {
				any, held := false, false
				for n := 1; n <= 3; n++ {
					res := run(c01pCase{Cfg: cfg, Script: s, Park: p, N: n})
					if res.reached {
						any, held = true, true
						sites[res.parkedAt] = true
					} else if res.skipped {
						skipped++
						any = true
					}
				}
				if held {
					occ++
				}
				if !any && p >= k {
					break
				}
			}
		}
	}
	var names []string
	for s := range sites {
		names = append(names, s)
	}
	sort.Strings(names)
	r.States = int64(len(sites))
	r.Bounds = map[string]any{"configurations": len(cfgs), "scripts": len(c01pScripts), "events_applied_while_held": "1..3", "park_sites_distinct": len(sites), "park_occurrences_held": occ}
	r.Extra = map[string]any{"park_sites": names, "skipped_under_lock": skipped}
	if occ < 10 {
		t.Fatalf("ENGINE-ERROR vacuous exploration: a goroutine was held at only %d occurrences (%v)", occ, names)
	}
}
