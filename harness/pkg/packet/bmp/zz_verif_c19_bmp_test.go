package bmp

// C19 (part bmp) — the BMP codec (RFC 7854/8671/9069) decodes safely and round-trips.

import (
	"bytes"
	"encoding/binary"
	"encoding/json"
	"fmt"
	"net/netip"
	"strings"
	"testing"
	"time"

	"github.com/osrg/gobgp/v4/internal/verif/c19lib"
	"github.com/osrg/gobgp/v4/internal/verif/vr"
	"github.com/osrg/gobgp/v4/pkg/packet/bgp"
)

var c19AddPathOpt = func(BMPPeerHeader) []*bgp.MarshallingOption {
	return []*bgp.MarshallingOption{{AddPath: map[bgp.Family]bgp.BGPAddPathMode{bgp.RF_IPv4_UC: bgp.BGP_ADD_PATH_BOTH, bgp.RF_IPv6_UC: bgp.BGP_ADD_PATH_BOTH}}}
}

func c19Render(msg *BMPMessage, opts ...*bgp.MarshallingOption) string {
	j, jerr := json.Marshal(msg)
	b, err := msg.Serialize(opts...)
	return fmt.Sprintf("%s|%v|%x|%v|%d", j, jerr != nil, b, err, msg.Len())
}

func c19ParseEntry(name string, withOpt bool) *c19lib.Entry {
	return &c19lib.Entry{
		Name:  name,
		Group: "bmp.parseBMPMessage",
		Run: func(x *c19lib.Checker, data []byte) c19lib.Outcome {
			var msg *BMPMessage
			var err error
			var opts []*bgp.MarshallingOption
			if withOpt {
				msg, err = ParseBMPMessageWithOptions(data, c19AddPathOpt)
				opts = c19AddPathOpt(BMPPeerHeader{})
			} else {
				msg, err = ParseBMPMessage(data)
			}
			o := c19lib.Outcome{}
			if err != nil {
				o.Err = err.Error()
			}
			switch {
			case msg != nil && err == nil:
				o.OK = true
				o.Val = c19Render(msg, opts...)
			case msg != nil && msg.Header.Type == BMP_MSG_ROUTE_MONITORING && msg.Body != nil:
				// by design a Route Monitoring message is returned together with the error of its malformed
				// UPDATE (bmp.go parseBMPMessage: "return msg, err"), so that the caller still has the peer
				// header: that value has to survive its own methods
				o.OK = true
				var j, b []byte
				var serr error
				if k, pm := c19lib.Guard(func() { j, _ = json.Marshal(msg) }); k != "" {
					x.Violation("C19:value-with-error:"+k, "Route Monitoring message returned together with error %q panics in json.Marshal: %s", err, pm)
				}
				if k, pm := c19lib.Guard(func() { b, serr = msg.Serialize(opts...) }); k != "" {
					if rm := msg.Body.(*BMPRouteMonitoring); rm.BGPUpdate == nil {
						k = "bmp.go:(*BMPRouteMonitoring).Serialize:nil-BGPUpdate"
					}
					x.Violation("C19:value-with-error:"+k, "Route Monitoring message returned together with error %q panics in Serialize: %s", err, pm)
				}
				o.Val = fmt.Sprintf("%s|%x|%v", j, b, serr)
			case msg != nil:
				// parseBMPMessage's recover() turned an internal panic into an error but left the named
				// result msg set: a half-initialised message (Body nil) accompanies the error. Recorded as
				// an outcome, not judged (a caller must not use a value returned with an error).
				o.Err = "[partial message leaked with error] " + o.Err
			}
			return o
		},
	}
}

func c19SplitEntry(atEOF bool) *c19lib.Entry {
	return &c19lib.Entry{
		Name:  fmt.Sprintf("bmp.SplitBMP[atEOF=%v]", atEOF),
		Group: "bmp.SplitBMP",
		Run: func(x *c19lib.Checker, data []byte) c19lib.Outcome {
			adv, tok, err := SplitBMP(data, atEOF)
			if adv < 0 || adv > len(data) {
				x.Violation("C19:splitter-advance-beyond-data:SplitBMP", "advance=%d with %d bytes of data", adv, len(data))
			}
			if len(tok) > len(data) {
				x.Violation("C19:splitter-token-longer-than-data:SplitBMP", "token of %d bytes from %d bytes of data", len(tok), len(data))
			}
			if tok != nil && adv == 0 && err == nil {
				x.Violation("C19:splitter-no-progress:SplitBMP", "returned a (%d-byte) token with advance 0: a bufio.Scanner delivers it forever", len(tok))
			}
			if tok == nil && adv == 0 && err == nil {
				return c19lib.Outcome{Err: "need more data"}
			}
			o := c19lib.Outcome{OK: tok != nil, Val: fmt.Sprintf("adv=%d tok=%x", adv, tok)}
			if err != nil {
				o.Err = err.Error()
			} else if len(tok) < BMP_HEADER_SIZE {
				o.Err = "token shorter than a BMP header"
			}
			return o
		},
	}
}

// direct calls of the exported body parsers (ParseBMPMessage wraps them in a recover())
func c19BodyEntry(name string, typ uint8, v6 bool, mk func() BMPBody) *c19lib.Entry {
	return &c19lib.Entry{
		Name:   name,
		KeyTag: "[direct-call;masked-by-recover-in-ParseBMPMessage]",
		Run: func(x *c19lib.Checker, data []byte) c19lib.Outcome {
			msg := &BMPMessage{Header: BMPHeader{Version: BMP_VERSION, Type: typ}}
			if v6 {
				msg.PeerHeader.Flags = BMP_PEER_FLAG_IPV6
			}
			b := mk()
			if err := b.ParseBody(msg, data); err != nil {
				return c19lib.Outcome{Err: err.Error()}
			}
			msg.Body = b
			j, jerr := json.Marshal(b)
			s, serr := b.Serialize()
			return c19lib.Outcome{OK: true, Val: fmt.Sprintf("%s|%v|%x|%v", j, jerr != nil, s, serr)}
		},
	}
}

func c19Entries() (all []*c19lib.Entry, byName map[string]*c19lib.Entry) {
	all = []*c19lib.Entry{
		c19ParseEntry("bmp.ParseBMPMessage", false),
		c19ParseEntry("bmp.ParseBMPMessageWithOptions[addpath]", true),
		c19SplitEntry(false), c19SplitEntry(true),
		{
			Name: "bmp.BMPHeader.DecodeFromBytes",
			Run: func(x *c19lib.Checker, data []byte) c19lib.Outcome {
				h := &BMPHeader{}
				if err := h.DecodeFromBytes(data); err != nil {
					return c19lib.Outcome{Err: err.Error()}
				}
				b, _ := h.Serialize()
				return c19lib.Outcome{OK: true, Val: fmt.Sprintf("%+v|%x", *h, b)}
			},
		},
		{
			Name: "bmp.BMPPeerHeader.DecodeFromBytes",
			Run: func(x *c19lib.Checker, data []byte) c19lib.Outcome {
				h := &BMPPeerHeader{}
				if err := h.DecodeFromBytes(data); err != nil {
					return c19lib.Outcome{Err: err.Error()}
				}
				b, _ := h.Serialize()
				j, _ := json.Marshal(h)
				return c19lib.Outcome{OK: true, Val: fmt.Sprintf("%s|%x|%v|%v", j, b, h.IsPostPolicy(), h.IsAdjRIBOut())}
			},
		},
		c19BodyEntry("bmp.BMPRouteMonitoring.ParseBody", BMP_MSG_ROUTE_MONITORING, false, func() BMPBody { return &BMPRouteMonitoring{} }),
		c19BodyEntry("bmp.BMPStatisticsReport.ParseBody", BMP_MSG_STATISTICS_REPORT, false, func() BMPBody { return &BMPStatisticsReport{} }),
		c19BodyEntry("bmp.BMPPeerDownNotification.ParseBody", BMP_MSG_PEER_DOWN_NOTIFICATION, false, func() BMPBody { return &BMPPeerDownNotification{} }),
		c19BodyEntry("bmp.BMPPeerUpNotification.ParseBody[v4]", BMP_MSG_PEER_UP_NOTIFICATION, false, func() BMPBody { return &BMPPeerUpNotification{} }),
		c19BodyEntry("bmp.BMPPeerUpNotification.ParseBody[v6]", BMP_MSG_PEER_UP_NOTIFICATION, true, func() BMPBody { return &BMPPeerUpNotification{} }),
		c19BodyEntry("bmp.BMPInitiation.ParseBody", BMP_MSG_INITIATION, false, func() BMPBody { return &BMPInitiation{} }),
		c19BodyEntry("bmp.BMPTermination.ParseBody", BMP_MSG_TERMINATION, false, func() BMPBody { return &BMPTermination{} }),
		c19BodyEntry("bmp.BMPRouteMirroring.ParseBody", BMP_MSG_ROUTE_MIRRORING, false, func() BMPBody { return &BMPRouteMirroring{} }),
	}
	byName = map[string]*c19lib.Entry{}
	for _, e := range all {
		byName[e.Name] = e
	}
	return
}

// ---- constructible messages ----

type c19Msg struct {
	name string
	kind string
	mk   func() *BMPMessage
	opt  bool // serialise and parse with the ADD-PATH options
}

func c19A(s string) netip.Addr { return netip.MustParseAddr(s) }

func c19Prefix(s string) *bgp.IPAddrPrefix {
	p, err := bgp.NewIPAddrPrefix(netip.MustParsePrefix(s))
	if err != nil {
		panic(err)
	}
	return p
}

func c19Open(as uint16, caps bool) *bgp.BGPMessage {
	var opts []bgp.OptionParameterInterface
	if caps {
		opts = []bgp.OptionParameterInterface{bgp.NewOptionParameterCapability([]bgp.ParameterCapabilityInterface{
			bgp.NewCapMultiProtocol(bgp.RF_IPv4_UC), bgp.NewCapRouteRefresh(), bgp.NewCapFourOctetASNumber(4200000000),
			bgp.NewCapAddPath([]*bgp.CapAddPathTuple{bgp.NewCapAddPathTuple(bgp.RF_IPv4_UC, bgp.BGP_ADD_PATH_BOTH)}),
		})}
	}
	m, err := bgp.NewBGPOpenMessage(as, 90, c19A("192.0.2.1"), opts)
	if err != nil {
		panic(err)
	}
	return m
}

func c19Updates() map[string]func() *bgp.BGPMessage {
	asp := func() bgp.PathAttributeInterface {
		return bgp.NewPathAttributeAsPath([]bgp.AsPathParamInterface{bgp.NewAs4PathParam(bgp.BGP_ASPATH_ATTR_TYPE_SEQ, []uint32{65001, 4200000000})})
	}
	return map[string]func() *bgp.BGPMessage{
		"update4": func() *bgp.BGPMessage {
			nh, _ := bgp.NewPathAttributeNextHop(c19A("192.0.2.1"))
			return bgp.NewBGPUpdateMessage([]bgp.PathNLRI{{NLRI: c19Prefix("10.9.0.0/16")}},
				[]bgp.PathAttributeInterface{bgp.NewPathAttributeOrigin(0), asp(), nh, bgp.NewPathAttributeMultiExitDisc(5), bgp.NewPathAttributeLocalPref(100)},
				[]bgp.PathNLRI{{NLRI: c19Prefix("10.1.0.0/24")}, {NLRI: c19Prefix("0.0.0.0/0")}})
		},
		"update4-pathid": func() *bgp.BGPMessage {
			nh, _ := bgp.NewPathAttributeNextHop(c19A("192.0.2.1"))
			return bgp.NewBGPUpdateMessage([]bgp.PathNLRI{{NLRI: c19Prefix("10.9.0.0/16"), ID: 0xffffffff}},
				[]bgp.PathAttributeInterface{bgp.NewPathAttributeOrigin(0), asp(), nh},
				[]bgp.PathNLRI{{NLRI: c19Prefix("10.1.0.0/24"), ID: 7}})
		},
		"update6": func() *bgp.BGPMessage {
			mp, err := bgp.NewPathAttributeMpReachNLRI(bgp.RF_IPv6_UC, []bgp.PathNLRI{{NLRI: c19Prefix("2001:db8:1::/48")}}, c19A("2001:db8::1"))
			if err != nil {
				panic(err)
			}
			return bgp.NewBGPUpdateMessage(nil, []bgp.PathAttributeInterface{bgp.NewPathAttributeOrigin(2), asp(), mp}, nil)
		},
		"eor": func() *bgp.BGPMessage { return bgp.NewBGPUpdateMessage(nil, nil, nil) },
	}
}

type c19PH struct {
	name string
	mk   func() *BMPPeerHeader
	v6   bool
	loc  bool
}

// c19PeerHeaders: every peer type x every flag set the constructor accepts x address family x boundary scalars.
func c19PeerHeaders(thorough bool) []c19PH {
	var out []c19PH
	stamps := []float64{0, 1, 1700000000, 4294967295, 1.5}
	dists := []uint64{0, 0xffffffffffffffff}
	ases := []uint32{0, 4200000000}
	if !thorough {
		stamps = []float64{0, 1700000000, 1.5}
		dists = []uint64{0xffffffffffffffff}
		ases = []uint32{4200000000}
	}
	for _, t := range []uint8{BMP_PEER_TYPE_GLOBAL, BMP_PEER_TYPE_L3VPN, BMP_PEER_TYPE_LOCAL, BMP_PEER_TYPE_LOCAL_RIB} {
		for fl := 0; fl < 8; fl++ {
			flags := uint8(fl) << 4 // POST_POLICY(0x40) TWO_AS(0x20) ADJ_RIB_TYP(0x10)
			addrs := []string{"10.0.0.1", "2001:db8::1"}
			if t == BMP_PEER_TYPE_LOCAL_RIB {
				addrs = []string{""} // RFC 9069: zero-filled
			}
			for _, a := range addrs {
				for _, d := range dists {
					for _, as := range ases {
						for _, st := range stamps {
							out = append(out, c19PH{
								name: fmt.Sprintf("ph(type=%d,flags=%#x,%s,dist=%d,as=%d,ts=%v)", t, flags, a, d, as, st),
								v6:   strings.Contains(a, ":"), loc: t == BMP_PEER_TYPE_LOCAL_RIB,
								mk: func() *BMPPeerHeader {
									addr := netip.Addr{}
									if a != "" {
										addr = c19A(a)
									}
									return NewBMPPeerHeader(t, flags, d, addr, as, c19A("10.0.0.2"), st)
								},
							})
						}
					}
				}
			}
		}
	}
	// RFC 9069 F flag on a Loc-RIB peer
	out = append(out, c19PH{name: "ph(type=3,flags=0x80 filtered)", loc: true, mk: func() *BMPPeerHeader {
		return NewBMPPeerHeader(BMP_PEER_TYPE_LOCAL_RIB, BMP_PEER_FLAG_IPV6, 1, netip.Addr{}, 65000, c19A("10.0.0.2"), 5)
	}})
	return out
}

func c19Constructible(thorough bool) []c19Msg {
	var out []c19Msg
	add := func(kind, name string, mk func() *BMPMessage) {
		out = append(out, c19Msg{name: name, kind: kind, mk: mk})
	}
	phs := c19PeerHeaders(thorough)
	few := []c19PH{phs[0], phs[len(phs)/3], phs[len(phs)/2], phs[len(phs)-2], phs[len(phs)-1]}
	for _, p := range phs {
		if p.v6 {
			few = append(few, p)
			break
		}
	}

	// Initiation
	infos := map[string]func() []BMPInfoTLVInterface{
		"nil": func() []BMPInfoTLVInterface { return nil },
		"strings": func() []BMPInfoTLVInterface {
			return []BMPInfoTLVInterface{NewBMPInfoTLVString(BMP_INIT_TLV_TYPE_STRING, ""), NewBMPInfoTLVString(BMP_INIT_TLV_TYPE_SYS_DESCR, "descr é"),
				NewBMPInfoTLVString(BMP_INIT_TLV_TYPE_SYS_NAME, strings.Repeat("n", 300)), NewBMPInfoTLVString(BMP_INIT_TLV_TYPE_VRF_TABLE_NAME, "global")}
		},
		"unknown": func() []BMPInfoTLVInterface {
			return []BMPInfoTLVInterface{NewBMPInfoTLVUnknown(0xffff, []byte{1, 2, 3, 4}), NewBMPInfoTLVUnknown(4, []byte{})}
		},
		"mixed": func() []BMPInfoTLVInterface {
			return []BMPInfoTLVInterface{NewBMPInfoTLVString(BMP_INIT_TLV_TYPE_SYS_NAME, "r1"), NewBMPInfoTLVUnknown(99, []byte{0xff})}
		},
	}
	for _, n := range []string{"nil", "strings", "unknown", "mixed"} {
		add("Initiation", "Initiation("+n+")", func() *BMPMessage { return NewBMPInitiation(infos[n]()) })
	}
	// Termination
	terms := map[string]func() []BMPTermTLVInterface{
		"nil": func() []BMPTermTLVInterface { return nil },
		"string": func() []BMPTermTLVInterface {
			return []BMPTermTLVInterface{NewBMPTermTLVString(BMP_TERM_TLV_TYPE_STRING, "bye")}
		},
		"unknown": func() []BMPTermTLVInterface {
			return []BMPTermTLVInterface{NewBMPTermTLVUnknown(0xff, []byte{1, 2, 3})}
		},
	}
	for _, n := range []string{"nil", "string", "unknown"} {
		add("Termination", "Termination("+n+")", func() *BMPMessage { return NewBMPTermination(terms[n]()) })
	}
	for _, reason := range []uint16{BMP_TERM_REASON_ADMIN, BMP_TERM_REASON_UNSPEC, BMP_TERM_REASON_OUT_OF_RESOURCES, BMP_TERM_REASON_REDUNDANT_CONNECTION, BMP_TERM_REASON_PERMANENTLY_ADMIN, 0xffff} {
		add("Termination", fmt.Sprintf("Termination(reason=%d)", reason), func() *BMPMessage {
			return NewBMPTermination([]BMPTermTLVInterface{NewBMPTermTLVString(BMP_TERM_TLV_TYPE_STRING, "x"), NewBMPTermTLV16(BMP_TERM_TLV_TYPE_REASON, reason)})
		})
	}
	// Route Monitoring: every peer header x one update; a few peer headers x every update
	for _, p := range phs {
		add("RouteMonitoring", "RouteMonitoring("+p.name+",update4)", func() *BMPMessage { return NewBMPRouteMonitoring(*p.mk(), c19Updates()["update4"]()) })
	}
	for _, p := range few {
		for _, u := range []string{"update6", "eor"} {
			add("RouteMonitoring", "RouteMonitoring("+p.name+","+u+")", func() *BMPMessage { return NewBMPRouteMonitoring(*p.mk(), c19Updates()[u]()) })
		}
		out = append(out, c19Msg{name: "RouteMonitoring+addpath(" + p.name + ",update4-pathid)", kind: "RouteMonitoring+addpath", opt: true,
			mk: func() *BMPMessage { return NewBMPRouteMonitoring(*p.mk(), c19Updates()["update4-pathid"]()) }})
	}
	// Statistics Report
	stats := map[string]func() []BMPStatsTLVInterface{
		"nil": func() []BMPStatsTLVInterface { return nil },
		"all-known": func() []BMPStatsTLVInterface {
			var s []BMPStatsTLVInterface
			for _, t := range []uint16{BMP_STAT_TYPE_REJECTED, BMP_STAT_TYPE_DUPLICATE_PREFIX, BMP_STAT_TYPE_DUPLICATE_WITHDRAW, BMP_STAT_TYPE_INV_UPDATE_DUE_TO_CLUSTER_LIST_LOOP,
				BMP_STAT_TYPE_INV_UPDATE_DUE_TO_AS_PATH_LOOP, BMP_STAT_TYPE_INV_UPDATE_DUE_TO_ORIGINATOR_ID, BMP_STAT_TYPE_INV_UPDATE_DUE_TO_AS_CONFED_LOOP,
				BMP_STAT_TYPE_WITHDRAW_UPDATE, BMP_STAT_TYPE_WITHDRAW_PREFIX, BMP_STAT_TYPE_DUPLICATE_UPDATE} {
				s = append(s, NewBMPStatsTLV32(t, 0xffffffff-uint32(t)))
			}
			for _, t := range []uint16{BMP_STAT_TYPE_ADJ_RIB_IN, BMP_STAT_TYPE_LOC_RIB, BMP_STAT_TYPE_ADJ_RIB_OUT_PRE_POLICY, BMP_STAT_TYPE_ADJ_RIB_OUT_POST_POLICY} {
				s = append(s, NewBMPStatsTLV64(t, 0xffffffffffffffff-uint64(t)))
			}
			for _, t := range []uint16{BMP_STAT_TYPE_PER_AFI_SAFI_ADJ_RIB_IN, BMP_STAT_TYPE_PER_AFI_SAFI_LOC_RIB, BMP_STAT_TYPE_PER_AFI_SAFI_ADJ_RIB_OUT_PRE_POLICY, BMP_STAT_TYPE_PER_AFI_SAFI_ADJ_RIB_OUT_POST_POLICY} {
				s = append(s, NewBMPStatsTLVPerAfiSafi64(t, bgp.AFI_IP6, bgp.SAFI_UNICAST, uint64(t)))
			}
			return s
		},
		"unknown-types": func() []BMPStatsTLVInterface {
			return []BMPStatsTLVInterface{NewBMPStatsTLV32(999, 1), NewBMPStatsTLV64(0xffff, 2)}
		},
	}
	for _, p := range few {
		for _, n := range []string{"nil", "all-known", "unknown-types"} {
			add("StatisticsReport", "StatisticsReport("+p.name+","+n+")", func() *BMPMessage { return NewBMPStatisticsReport(*p.mk(), stats[n]()) })
		}
	}
	// Peer Down
	for _, p := range few {
		for _, reason := range []uint8{BMP_peerDownByUnknownReason, BMP_PEER_DOWN_REASON_LOCAL_BGP_NOTIFICATION, BMP_PEER_DOWN_REASON_LOCAL_NO_NOTIFICATION,
			BMP_PEER_DOWN_REASON_REMOTE_BGP_NOTIFICATION, BMP_PEER_DOWN_REASON_REMOTE_NO_NOTIFICATION, BMP_PEER_DOWN_REASON_PEER_DE_CONFIGURED, BMP_PEER_DOWN_REASON_TLV_FOLLOWS, 0xff} {
			add("PeerDown", fmt.Sprintf("PeerDown(%s,reason=%d)", p.name, reason), func() *BMPMessage {
				switch reason {
				case BMP_PEER_DOWN_REASON_LOCAL_BGP_NOTIFICATION, BMP_PEER_DOWN_REASON_REMOTE_BGP_NOTIFICATION:
					return NewBMPPeerDownNotification(*p.mk(), reason, bgp.NewBGPNotificationMessage(6, 2, []byte{1, 2}), nil)
				case BMP_PEER_DOWN_REASON_LOCAL_NO_NOTIFICATION:
					return NewBMPPeerDownNotification(*p.mk(), reason, nil, []byte{0, 9})
				case BMP_PEER_DOWN_REASON_TLV_FOLLOWS:
					return NewBMPPeerDownNotification(*p.mk(), reason, nil, nil, NewBMPInfoTLVString(BMP_INIT_TLV_TYPE_VRF_TABLE_NAME, "global"))
				}
				return NewBMPPeerDownNotification(*p.mk(), reason, nil, nil)
			})
		}
		add("PeerDown", "PeerDown("+p.name+",reason=6 without TLVs)", func() *BMPMessage {
			return NewBMPPeerDownNotification(*p.mk(), BMP_PEER_DOWN_REASON_TLV_FOLLOWS, nil, nil)
		})
	}
	// Peer Up: every peer header, local address of the matching family
	for _, p := range phs {
		for _, withInfo := range []bool{false, true} {
			add("PeerUp", fmt.Sprintf("PeerUp(%s,info=%v)", p.name, withInfo), func() *BMPMessage {
				l := c19A("10.0.0.3")
				if p.v6 {
					l = c19A("2001:db8::3")
				}
				if p.loc {
					l = netip.Addr{} // what the daemon passes for the Loc-RIB instance peer
				}
				var info []BMPInfoTLVInterface
				if withInfo {
					info = []BMPInfoTLVInterface{NewBMPInfoTLVString(BMP_INIT_TLV_TYPE_VRF_TABLE_NAME, "global"), NewBMPInfoTLVString(BMP_INIT_TLV_TYPE_STRING, "")}
				}
				return NewBMPPeerUpNotification(*p.mk(), l, 179, 0xffff, c19Open(65001, true), c19Open(0, false), info...)
			})
		}
	}
	// Route Mirroring
	mirr := map[string]func() []BMPRouteMirrTLVInterface{
		"nil": func() []BMPRouteMirrTLVInterface { return nil },
		"bgpmsg": func() []BMPRouteMirrTLVInterface {
			return []BMPRouteMirrTLVInterface{NewBMPRouteMirrTLVBGPMsg(BMP_ROUTE_MIRRORING_TLV_TYPE_BGP_MSG, c19Updates()["update4"]())}
		},
		"info": func() []BMPRouteMirrTLVInterface {
			return []BMPRouteMirrTLVInterface{NewBMPRouteMirrTLV16(BMP_ROUTE_MIRRORING_TLV_TYPE_INFO, BMP_ROUTE_MIRRORING_INFO_ERR_PDU),
				NewBMPRouteMirrTLV16(BMP_ROUTE_MIRRORING_TLV_TYPE_INFO, BMP_ROUTE_MIRRORING_INFO_MSG_LOST)}
		},
		"mixed": func() []BMPRouteMirrTLVInterface {
			return []BMPRouteMirrTLVInterface{NewBMPRouteMirrTLVBGPMsg(BMP_ROUTE_MIRRORING_TLV_TYPE_BGP_MSG, bgp.NewBGPKeepAliveMessage()),
				NewBMPRouteMirrTLVUnknown(0xffff, []byte{9, 9}), NewBMPRouteMirrTLV16(BMP_ROUTE_MIRRORING_TLV_TYPE_INFO, 0xffff)}
		},
	}
	for _, p := range few {
		for _, n := range []string{"nil", "bgpmsg", "info", "mixed"} {
			add("RouteMirroring", "RouteMirroring("+p.name+","+n+")", func() *BMPMessage { return NewBMPRouteMirroring(*p.mk(), mirr[n]()) })
		}
	}
	return out
}

func c19RoundTrip(r *vr.Report, c c19Msg) {
	r.Eval()
	cs := c19lib.RTCase{Kind: "roundtrip", Name: c.name}
	var opts []*bgp.MarshallingOption
	var of func(BMPPeerHeader) []*bgp.MarshallingOption
	if c.opt {
		opts, of = c19AddPathOpt(BMPPeerHeader{}), c19AddPathOpt
	}
	var m *BMPMessage
	var b1 []byte
	var err error
	if k, msg := c19lib.Guard(func() {
		m = c.mk()
		b1, err = m.Serialize(opts...)
	}); k != "" {
		r.Violationf("C19:panic:"+k, cs, "%s: construct/Serialize: %s", c.name, msg)
		return
	}
	if err != nil {
		r.Outcome("roundtrip: not constructible: " + c.kind)
		return
	}
	var m2 *BMPMessage
	if k, msg := c19lib.Guard(func() { m2, err = ParseBMPMessageWithOptions(b1, of) }); k != "" {
		r.Violationf("C19:panic:"+k, cs, "%s: parse of %x: %s", c.name, b1, msg)
		return
	}
	if err != nil {
		r.Violationf("C19:roundtrip:bmp:reparse-error:"+c.kind, cs, "%s serialises to %x which does not parse back: %v", c.name, b1, err)
		return
	}
	// normalisation: the Peer Up local address of a Loc-RIB instance peer is zero-filled on the wire;
	// "no address" (what the daemon passes) and 0.0.0.0 (what the decoder returns) are the same message.
	if up, ok := m.Body.(*BMPPeerUpNotification); ok && m.PeerHeader.PeerType == BMP_PEER_TYPE_LOCAL_RIB && !up.LocalAddress.IsValid() {
		if up2, ok := m2.Body.(*BMPPeerUpNotification); ok && up2.LocalAddress == netip.IPv4Unspecified() {
			up2.LocalAddress = netip.Addr{}
			r.Outcome("roundtrip: normalised Loc-RIB Peer Up local address 0.0.0.0 == unset")
		}
	}
	if ok, path := c19lib.Equal(m, m2); !ok {
		cls := c.kind
		if strings.HasSuffix(path, ".PeerHeader.Timestamp") {
			cls = "PeerHeader.Timestamp"
		}
		r.Violationf("C19:roundtrip:bmp:not-equal:"+cls, cs, "%s -> %x -> parsed message differs at %s", c.name, b1, path)
		return
	}
	b2, err := m2.Serialize(opts...)
	if err != nil || !bytes.Equal(b1, b2) {
		r.Violationf("C19:roundtrip:bmp:reserialise-differs:"+c.kind, cs, "%s: %x vs %x (%v)", c.name, b1, b2, err)
		return
	}
	r.NT("rt|" + c.name)
	r.Outcome("roundtrip: equal: " + c.kind)
}

// c19RefSplit: RFC 7854 4.1 common header = version(1)=3, message length(4, header included), type(1).
func c19RefSplit(stream []byte) [][]byte {
	var out [][]byte
	for len(stream) >= 6 {
		if stream[0] != 3 {
			break
		}
		l := uint64(binary.BigEndian.Uint32(stream[1:5]))
		if l < 6 || uint64(len(stream)) < l {
			break
		}
		out = append(out, stream[:l])
		stream = stream[l:]
	}
	return out
}

func TestVerif_C19_BMP(t *testing.T) {
	r := vr.Start(t, "C19", "bmp")
	defer r.Finish()
	r.Rule = "decoder: every byte string over the stated alphabets/lengths at ParseBMPMessage, ParseBMPMessageWithOptions(add-path), SplitBMP(atEOF f/t), the two header decoders and the exported ParseBody of every body type; every fault-catalogue mutant (byte x values, truncations, appended byte, every 16/32-bit window x length-fault values; thorough: pairs) and garbage tails at every cut position of one serialised message per message type/variant, as a whole message and as a body; each executed with cap==len and with 96 poison bytes (00, ff) behind the data; non-trivial = a message/token was returned, also one returned together with an error (then json.Marshal/Serialize/Len were exercised). streams: concatenated messages and their single-fault mutants through a real bufio.Scanner for every chunk size vs RFC 7854 framing. round trip: every constructor over every peer type x flag set x address family and boundary scalars -> Serialize -> ParseBMPMessage -> structurally equal -> identical bytes"
	entries, byName := c19Entries()
	cons := c19Constructible(vr.Thorough())
	if r.ReplayPath() != "" {
		var raw map[string]any
		if err := r.LoadReplay(&raw); err != nil {
			t.Fatal(err)
		}
		switch raw["kind"] {
		case "roundtrip":
			for _, c := range cons {
				if c.name == raw["name"] {
					c19RoundTrip(r, c)
				}
			}
		case "stream":
			var cs c19lib.StreamCase
			r.LoadReplay(&cs)
			c19lib.ScanStream(r, "SplitBMP", SplitBMP, c19RefSplit, BMP_HEADER_SIZE, c19lib.UnHex(cs.Hex), cs.Chunk, cs.Note)
		default:
			c19lib.ReplayDecoder(r, entries)
		}
		return
	}
	stop := c19lib.Watchdog(r, 3*time.Minute)
	defer stop()
	W := vr.Workers()

	r.Bounds["rt_constructible_messages"] = len(cons)
	r.Bounds["rt_peer_headers"] = len(c19PeerHeaders(vr.Thorough()))
	r.Parallel(W, func(w int, cr *vr.Report) {
		for i, c := range cons {
			if i%W != w {
				continue
			}
			c19RoundTrip(cr, c)
			if cr.WantSample() && i%173 == 0 {
				cr.Sample(c19lib.RTCase{Kind: "roundtrip", Name: c.name})
			}
		}
	})

	// seeds: the last constructible message of every kind plus a v6-peer Peer Up and Route Monitoring
	bodyEntry := map[uint8][]string{
		BMP_MSG_ROUTE_MONITORING:       {"bmp.BMPRouteMonitoring.ParseBody"},
		BMP_MSG_STATISTICS_REPORT:      {"bmp.BMPStatisticsReport.ParseBody"},
		BMP_MSG_PEER_DOWN_NOTIFICATION: {"bmp.BMPPeerDownNotification.ParseBody"},
		BMP_MSG_PEER_UP_NOTIFICATION:   {"bmp.BMPPeerUpNotification.ParseBody[v4]", "bmp.BMPPeerUpNotification.ParseBody[v6]"},
		BMP_MSG_INITIATION:             {"bmp.BMPInitiation.ParseBody"},
		BMP_MSG_TERMINATION:            {"bmp.BMPTermination.ParseBody"},
		BMP_MSG_ROUTE_MIRRORING:        {"bmp.BMPRouteMirroring.ParseBody"},
	}
	var seeds []c19lib.Seed
	var records [][]byte
	pick := map[int]bool{}
	last := map[string]int{}
	firstV6 := map[string]int{}
	for i, c := range cons {
		last[c.kind] = i
		if _, ok := firstV6[c.kind]; !ok && strings.Contains(c.name, "2001:db8::1") {
			firstV6[c.kind] = i
		}
	}
	for _, i := range last {
		pick[i] = true
	}
	for _, k := range []string{"PeerUp", "RouteMonitoring"} {
		pick[firstV6[k]] = true
	}
	// every Peer Down reason
	for i, c := range cons {
		if c.kind == "PeerDown" && strings.HasPrefix(c.name, "PeerDown("+c19PeerHeaders(vr.Thorough())[0].name) {
			pick[i] = true
		}
	}
	msgEntries := []*c19lib.Entry{byName["bmp.ParseBMPMessage"], byName["bmp.ParseBMPMessageWithOptions[addpath]"], byName["bmp.SplitBMP[atEOF=false]"], byName["bmp.SplitBMP[atEOF=true]"]}
	for i, c := range cons {
		if !pick[i] {
			continue
		}
		var opts []*bgp.MarshallingOption
		if c.opt {
			opts = c19AddPathOpt(BMPPeerHeader{})
		}
		m := c.mk()
		b, err := m.Serialize(opts...)
		if err != nil {
			continue
		}
		records = append(records, b)
		seeds = append(seeds, c19lib.Seed{Name: "msg:" + c.name, Data: b, Entries: msgEntries})
		off := BMP_HEADER_SIZE
		if m.Header.Type != BMP_MSG_INITIATION && m.Header.Type != BMP_MSG_TERMINATION {
			off += BMP_PEER_HEADER_SIZE
		}
		var es []*c19lib.Entry
		for _, n := range bodyEntry[m.Header.Type] {
			es = append(es, byName[n])
		}
		seeds = append(seeds, c19lib.Seed{Name: "body:" + c.name, Data: b[off:], Entries: es})
	}
	for _, rec := range records {
		if len(rec) >= 48 {
			seeds = append(seeds, c19lib.Seed{Name: "header", Data: rec[:6], Entries: []*c19lib.Entry{byName["bmp.BMPHeader.DecodeFromBytes"]}})
			seeds = append(seeds, c19lib.Seed{Name: "peerheader", Data: rec[6:48], Entries: []*c19lib.Entry{byName["bmp.BMPPeerHeader.DecodeFromBytes"]}})
			break
		}
	}

	primary := []*c19lib.Entry{byName["bmp.ParseBMPMessage"], byName["bmp.SplitBMP[atEOF=false]"], byName["bmp.SplitBMP[atEOF=true]"]}
	plan := &c19lib.Plan{
		// Quick: full alphabet up to length 3 at the message parser and the splitter; every other entry
		// point full alphabet up to 2 and boundary alphabet up to 3. Thorough: full alphabet up to 3
		// everywhere, boundary alphabet up to 4.
		Entries: primary, StrAlpha: c19lib.FullAlphabet(), StrMaxLen: 3,
		Groups: []c19lib.StrGroup{
			{Label: "full<=2", Entries: entries, Alpha: c19lib.FullAlphabet(), MaxLen: 2},
			{Label: "boundary<=3", Entries: entries, Alpha: c19lib.Boundary, MaxLen: 3},
		},
		Seeds: seeds, Opt: c19lib.MutOpt{PairStride: 1}, TailFull: 1,
	}
	if vr.Thorough() {
		// thorough: the primary entry points keep all three executions; the others get the full alphabet
		// up to length 3 with cap==len only (1.8 G calls otherwise) and the boundary alphabet up to 4 in all modes
		var secondary []*c19lib.Entry
		isPrimary := map[*c19lib.Entry]bool{}
		for _, e := range primary {
			isPrimary[e] = true
		}
		for _, e := range entries {
			if !isPrimary[e] {
				c := *e
				c.TightOnly = true
				secondary = append(secondary, &c)
			}
		}
		plan.Groups = []c19lib.StrGroup{
			{Label: "secondary full<=3 cap==len", Entries: secondary, Alpha: c19lib.FullAlphabet(), MaxLen: 3},
			{Label: "boundary<=4", Entries: entries, Alpha: c19lib.Boundary, MaxLen: 4},
		}
		plan.Opt = c19lib.MutOpt{AllByteValues: true, Pairs: true, PairStride: 6}
		plan.TailFull, plan.TailBoundary = 1, 2 // full-alphabet tails of length 2 are 8 M cases per seed: unaffordable
		// fault pairs: only for the whole-message seed that is the last of its message type
		lastOfKind := map[string]string{}
		for _, c := range cons {
			lastOfKind[c.kind] = "msg:" + c.name
		}
		keep := map[string]bool{}
		for _, n := range lastOfKind {
			keep[n] = true
		}
		for i := range plan.Seeds {
			plan.Seeds[i].NoPairs = !keep[plan.Seeds[i].Name]
		}
		r.Bounds["mutation_pairs_seeds"] = len(keep)
	}
	plan.Run(r)
	r.Sample(c19lib.Case{Entry: "bmp.ParseBMPMessage", Hex: c19lib.Hex(records[0]), Note: "seed " + seeds[0].Name})

	var streams [][]byte
	var snotes []string
	for i := range records {
		streams = append(streams, records[i])
		snotes = append(snotes, fmt.Sprintf("msg#%d", i))
		if i+1 < len(records) {
			streams = append(streams, append(append([]byte{}, records[i]...), records[i+1]...))
			snotes = append(snotes, fmt.Sprintf("msg#%d+#%d", i, i+1))
		}
	}
	chunks := []int{1, 5, 6, 7, 1 << 20}
	maxStream := 160
	if vr.Thorough() {
		chunks = []int{1, 2, 3, 5, 6, 7, 11, 16, 31, 64, 1 << 20}
		maxStream = 400
	}
	c19lib.ScanStreams(r, "SplitBMP", SplitBMP, c19RefSplit, BMP_HEADER_SIZE, streams, snotes, chunks, maxStream)
}
