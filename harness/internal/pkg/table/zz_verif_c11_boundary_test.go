package table

// C11 part "boundary": sweeps of attribute-set size around the message size limit and of prefix
// counts around the number of routes one message can hold, through the real
// CreateUpdateMsgFromPaths and BGPMessage.Serialize, judged by the receiver model.

import (
	"fmt"
	"log/slog"
	"sort"
	"testing"

	"github.com/osrg/gobgp/v4/internal/verif/vr"
)

// route flavours of the sweep
const (
	c11FlV4     = 0 // IPv4 unicast, IPv4 next hop: NLRI field + NEXT_HOP (packerV4 cages)
	c11FlV6     = 1 // IPv6 unicast, global next hop (packerMP)
	c11FlVPN    = 2 // VPNv4 (packerMP)
	c11FlV4NH6  = 3 // IPv4 unicast with IPv6 next hop, RFC 8950 (packerV4 mpPaths)
	c11FlV6LL   = 4 // IPv6 unicast, global + link-local next hop (packerMP)
	c11MaskMix  = -1
	c11Regimes  = "count|size|withdraw"
	c11OtherPfx = 0x00c63364 // 198.51.100.0/24 as a /24 index, far from the generated ranges
)

var c11FlName = []string{"ipv4", "ipv6", "vpnv4", "ipv4+v6nh", "ipv6+linklocal"}
var c11FlFam = []int{c11V4, c11V6, c11VPN, c11V4, c11V6}
var c11FlNH = [][]byte{c11nh4, c11nh6, c11nh4, c11nh6, c11nhLL}

type c11BCase struct {
	Part    string `json:"part"`
	Regime  string `json:"regime"` // count: many routes, small attributes; size: attribute set near the limit; withdraw: many withdrawals
	Flavour int    `json:"flavour"`
	Mask    int    `json:"mask"`   // prefix length, -1 = lengths cycle through the family's list
	Filler  int    `json:"filler"` // value length of the type-250 attribute, -1 = absent
	N       int    `json:"n"`
	Mix     bool   `json:"mix"` // bystander routes of the same and of another family, a withdrawal and an EOR in the same call
	Cfg     c11Cfg `json:"cfg"`
	K       int    `json:"k"` // size regime: limit - (length of a message with the attribute set and the longest single NLRI)
	Text    string `json:"text"`
}

func (b c11BCase) describe() string {
	return fmt.Sprintf("%s: %d x %s mask %d, filler %d, mix=%v, k=%d, %v", b.Regime, b.N, c11FlName[b.Flavour], b.Mask, b.Filler, b.Mix, b.K, b.Cfg)
}

var c11MixMasks = [][]int{{8, 16, 24, 32}, {32, 48, 64, 128}, {8, 16, 24, 32}}

func c11MaskOf(fam, mask, i int) int {
	if mask != c11MaskMix {
		return mask
	}
	return c11MixMasks[fam][i%4]
}

func c11MaxBitsOf(fam int) int {
	if fam == c11V6 {
		return 128
	}
	return 32
}

// c11GenPrefix is the i-th prefix of the given length: i placed in the last 32 bits of the network part.
func c11GenPrefix(fam, bits, i int) c11Prefix {
	n := 4
	if fam == c11V6 {
		n = 16
	}
	a := make([]byte, n)
	if fam == c11V6 && bits >= 64 {
		copy(a, []byte{0x20, 0x01, 0x0d, 0xb8})
	}
	v := uint64(i)
	// network part = bits; write v so that its least significant bit is bit number bits-1
	for b := bits - 1; b >= 0 && v != 0; b-- {
		if v&1 != 0 {
			a[b/8] |= 0x80 >> (b % 8)
		}
		v >>= 1
	}
	return c11Prefix{Fam: fam, Bits: bits, Addr: a}
}

func c11Distinct(fam, mask int) int {
	if mask == c11MaskMix {
		return 1 << 30
	}
	if mask >= 30 {
		return 1 << 30
	}
	return 1 << mask
}

func c11Spec(fl, filler int) c11AttrSpec {
	return c11AttrSpec{Origin: 0, ASPath: []uint32{65001}, MED: -1, Filler: filler, NH: c11FlNH[fl]}
}

// c11Fit: how many of the NLRI tuples (lengths given by nl(i), i = 0..) fit one UPDATE with the attribute set.
func c11Fit(fam int, a c11AttrSpec, other, lim int, nl func(i int) int) int {
	tot, n := 0, 0
	for n < 1<<20 {
		tot += nl(n)
		if c11MsgLen(fam, a, other, tot) > lim {
			break
		}
		n++
	}
	return n
}

func c11FitWithdraw(fam, lim int, nl func(i int) int) int {
	tot, n := 0, 0
	for n < 1<<20 {
		tot += nl(n)
		if c11WithdrawMsgLen(fam, tot) > lim {
			break
		}
		n++
	}
	return n
}

func c11Counts(distinct int, vs ...int) []int {
	m := map[int]bool{}
	for _, v := range vs {
		if v >= 1 && v <= distinct {
			m[v] = true
		}
	}
	var out []int
	for v := range m {
		out = append(out, v)
	}
	sort.Ints(out)
	return out
}

// c11BWorld builds the paths of boundary cases; one per worker (tables are reused across cases, a
// re-announcement by the same peer keeps local path id 1).
type c11BWorld struct {
	tb       testing.TB
	byTbls   []*Table // tables of the bystander routes
	peer     *PeerInfo
	cacheKey string // (flavour, mask, filler) of the cached main routes
	cache    []c11Item
}

func c11NewTables() []*Table {
	var t []*Table
	for f := range c11Families {
		t = append(t, NewTable(c11Logger(), c11Families[f]))
	}
	return t
}

func c11NewBWorld(tb testing.TB) *c11BWorld {
	return &c11BWorld{tb: tb, peer: c11Peer(1), byTbls: c11NewTables()}
}

func (w *c11BWorld) announce(tbls []*Table, fl int, spec c11AttrSpec, pfx []c11Prefix) []c11Item {
	fam := c11FlFam[fl]
	rec := c11ExpectedRec(fam, spec)
	other := c11OtherLen(spec)
	sp := spec
	items := make([]c11Item, 0, len(pfx))
	const chunk = 4096 // NLRIs per originating UPDATE structure
	for off := 0; off < len(pfx); off += chunk {
		end := min(off+chunk, len(pfx))
		ps := c11MakePaths(fam, spec, pfx[off:end], w.peer)
		if len(ps) != end-off {
			w.tb.Fatalf("ENGINE-ERROR ProcessMessage returned %d paths for %d prefixes", len(ps), end-off)
		}
		for i, p := range ps {
			tbls[fam].update(p)
			if p.localID != 1 {
				w.tb.Fatalf("ENGINE-ERROR local path id %d for %v", p.localID, pfx[off+i])
			}
			px := pfx[off+i]
			items = append(items, c11Item{Kind: c11Ann, Fam: fam, Base: px.baseKey(), ID: 1, Rec: &rec, Spec: &sp, Other: other,
				NLen: c11NLRILen(fam, px.Bits), Path: p})
		}
	}
	return items
}

func (w *c11BWorld) main(fl, mask, filler, n int) []c11Item {
	key := fmt.Sprintf("%d/%d/%d", fl, mask, filler)
	if w.cacheKey == key && len(w.cache) >= n {
		return w.cache[:n]
	}
	fam := c11FlFam[fl]
	pfx := make([]c11Prefix, n)
	for i := range pfx {
		m := c11MaskOf(fam, mask, i)
		j := i
		if mask == c11MaskMix {
			j = i / 4
		}
		pfx[i] = c11GenPrefix(fam, m, j)
	}
	// local path ids come from destination.Calculate; large groups get a fresh table (dropped with the
	// group), small ones share the worker's table (a re-announcement by the same peer keeps id 1)
	tbls := w.byTbls
	if n > 512 {
		tbls = c11NewTables()
	}
	w.cacheKey, w.cache = key, w.announce(tbls, fl, c11Spec(fl, filler), pfx)
	return w.cache
}

// bystanders: routes with a small attribute set that must get through whatever happens to the main routes
func (w *c11BWorld) bystanders(fl int) (before, after []c11Item) {
	fam := c11FlFam[fl]
	small := c11AttrSpec{Origin: 0, ASPath: []uint32{65009}, MED: -1, Filler: -1, NH: c11FlNH[fl]}
	bits := 24
	if fam == c11V6 {
		bits = 48
	}
	ps := []c11Prefix{c11GenPrefix(fam, bits, c11OtherPfx), c11GenPrefix(fam, bits, c11OtherPfx+1), c11GenPrefix(fam, bits, c11OtherPfx+2)}
	its := w.announce(w.byTbls, fl, small, ps)
	wd := its[2]
	wd.Kind, wd.Rec, wd.Spec, wd.Path = c11Wd, nil, nil, its[2].Path.Clone(true)
	ofl := c11FlV6
	if fam == c11V6 {
		ofl = c11FlV4
	}
	ofam := c11FlFam[ofl]
	obits := 24
	if ofam == c11V6 {
		obits = 48
	}
	osmall := c11AttrSpec{Origin: 0, ASPath: []uint32{65009}, MED: -1, Filler: -1, NH: c11FlNH[ofl]}
	other := w.announce(w.byTbls, ofl, osmall, []c11Prefix{c11GenPrefix(ofam, obits, c11OtherPfx)})
	eor := c11Item{Kind: c11EOR, Fam: fam, Path: NewEOR(c11Families[fam])}
	return its[:1], []c11Item{its[1], wd, eor, other[0]}
}

func (w *c11BWorld) run(c *c11Ctx, cs c11BCase, logs func() int64) {
	main := w.main(cs.Flavour, cs.Mask, cs.Filler, cs.N)
	var items []c11Item
	if cs.Regime == "withdraw" {
		items = make([]c11Item, len(main))
		for i, it := range main {
			it.Kind, it.Rec, it.Spec, it.Path = c11Wd, nil, nil, it.Path.Clone(true)
			items[i] = it
		}
	} else {
		items = main
	}
	if cs.Mix {
		b, a := w.bystanders(cs.Flavour)
		items = append(append(append([]c11Item{}, b...), items...), a...)
	}
	c11Check(c, cs.Cfg, items, func() any { cs.Part = "boundary"; cs.Text = cs.describe(); return cs }, logs)
}

// c11BoundaryCases lists the sweep. seq = cases that contain a route too large for any message.
func c11BoundaryCases(thorough bool) (par, seq []c11BCase, bounds map[string]any) {
	bounds = map[string]any{}
	masks := [][]int{{0, 8, 24, 32, c11MaskMix}, {0, 32, 64, 128, c11MaskMix}, {8, 24, 32, c11MaskMix}}
	fillersSmall := []int{-1, 246, 247, 248, 249, 250, 251, 252, 253, 254, 255, 256, 257, 258}
	fillersExt := []int{-1, 255, 256}
	kLo, kHi := -26, 30
	kFar := []int{-100, -1000, -30000}
	if thorough {
		masks = [][]int{{0, 1, 8, 9, 16, 24, 25, 32, c11MaskMix}, {0, 1, 32, 48, 64, 65, 127, 128, c11MaskMix}, {0, 8, 24, 25, 32, c11MaskMix}}
		fillersExt = fillersSmall
		kLo, kHi = -40, 64
	}
	bounds["masks"] = map[string]any{"ipv4": masks[0], "ipv6": masks[1], "vpnv4": masks[2], "-1": "lengths cycle 8,16,24,32 (ipv6: 32,48,64,128)"}
	bounds["count_regime_filler_value_lengths(limit 4096)"] = fillersSmall
	bounds["count_regime_filler_value_lengths(limit 65535)"] = fillersExt
	bounds["count_regime_N"] = "1, 2, fit-1, fit, fit+1, 2fit+1 and for ipv4 g-1, g, g+1, 2g+1 with g = (limit-23-attrs)/(5 or 9); additionally 2fit, 3fit, 2g, 20000 when the filler is absent, 255 or 256 (thorough: always); fit = routes that fit one message by the byte arithmetic of the RFC; N capped by the number of distinct prefixes of the length (/0: 1, /8: 256); ipv4+v6nh: 1, 2, 3, 100 (+ fit+1, 20000)"
	bounds["size_regime_k"] = fmt.Sprintf("k = limit - single-route message length, every k in [%d,%d] and %v (skipped when the attribute block would exceed 65535 octets)", kLo, kHi, kFar)
	bounds["size_regime_N"] = "k>=0: 1, 2, fit-1, fit, fit+1, 2fit+1, 3fit; k<0: 1, 2, 3; each with and without bystanders (2 announcements, 1 withdrawal, EOR of the same family, 1 announcement of another family)"
	bounds["withdraw_regime_N"] = "1, fit-1, fit, fit+1, 2fit, 2fit+1, 3fit, 20000"
	bounds["flavours"] = c11FlName
	for fl := range c11FlName {
		fam := c11FlFam[fl]
		for _, cfg := range c11Cfgs {
			lim := cfg.limit()
			ap := 0
			if cfg.AddPath {
				ap = 4
			}
			for _, mask := range masks[fam] {
				nl := func(i int) int { return c11NLRILen(fam, c11MaskOf(fam, mask, i)) + ap }
				distinct := c11Distinct(fam, mask)
				// --- count regime
				fillers := fillersSmall
				if cfg.Ext {
					fillers = fillersExt
				}
				for _, f := range fillers {
					spec := c11Spec(fl, f)
					other := c11OtherLen(spec)
					fit := c11Fit(fam, spec, other, lim, nl)
					ns := []int{1, 2, fit - 1, fit, fit + 1, 2*fit + 1}
					wide := f == -1 || f == 255 || f == 256 || thorough
					if wide {
						ns = append(ns, 2*fit, 3*fit, 20000)
					}
					if fl == c11FlV4 {
						g := (lim - 23 - other - 7) / (5 + ap) // the per-NLRI worst case
						ns = append(ns, g-1, g, g+1, 2*g+1)
						if wide {
							ns = append(ns, 2*g)
						}
					}
					if fl == c11FlV4NH6 {
						ns = []int{1, 2, 3, 100} // one message per route whatever the count
						if wide {
							ns = append(ns, fit+1, 20000)
						}
					}
					for _, n := range c11Counts(distinct, ns...) {
						par = append(par, c11BCase{Regime: "count", Flavour: fl, Mask: mask, Filler: f, N: n, Cfg: cfg, K: lim - c11MsgLen(fam, spec, other, nl(0))})
					}
				}
				// --- withdraw regime (attribute sets do not matter; flavours 3,4 withdraw like 0,1)
				if fl <= c11FlVPN {
					fit := c11FitWithdraw(fam, lim, nl)
					for _, n := range c11Counts(distinct, 1, fit-1, fit, fit+1, 2*fit, 2*fit+1, 3*fit, 20000) {
						par = append(par, c11BCase{Regime: "withdraw", Flavour: fl, Mask: mask, Filler: -1, N: n, Cfg: cfg})
					}
				}
				// --- size regime: k = limit - length of the message with the longest single NLRI
				longest := 0
				for i := 0; i < 4; i++ {
					longest = max(longest, nl(i))
				}
				base0 := c11MsgLen(fam, c11Spec(fl, 0), c11OtherLen(c11Spec(fl, 0)), longest)
				var ks []int
				for k := kLo; k <= kHi; k++ {
					ks = append(ks, k)
				}
				ks = append(ks, kFar...)
				for _, k := range ks {
					f := lim - k - base0
					if f > 255 {
						f-- // extended-length attribute header
					}
					if f < 0 || f > 65535 {
						continue
					}
					spec := c11Spec(fl, f)
					other := c11OtherLen(spec)
					if c11MsgLen(fam, spec, other, longest) != lim-k {
						continue // the size is not reachable with one filler attribute
					}
					attrBlock := c11MsgLen(fam, spec, other, longest) - 23 - c11b2i(c11IsClassic(fam, spec))*longest
					if attrBlock > 65535 {
						continue // cannot be framed at all
					}
					fit := c11Fit(fam, spec, other, lim, nl)
					ns := []int{1, 2, 3}
					if k >= 0 {
						ns = []int{1, 2, fit - 1, fit, fit + 1, 2*fit + 1, 3 * fit}
					}
					for _, n := range c11Counts(distinct, ns...) {
						for _, mix := range []bool{false, true} {
							cs := c11BCase{Regime: "size", Flavour: fl, Mask: mask, Filler: f, N: n, Mix: mix, Cfg: cfg, K: k}
							// does the case contain a route that fits no message?
							over := false
							for i := 0; i < n && i < 4; i++ {
								if c11MsgLen(fam, spec, other, nl(i)) > lim {
									over = true
								}
							}
							if over {
								seq = append(seq, cs)
							} else {
								par = append(par, cs)
							}
						}
					}
				}
			}
		}
	}
	return
}

func TestVerif_C11_Boundary(t *testing.T) {
	r := vr.Start(t, "C11", "boundary")
	defer r.Finish()
	r.Rule = "deterministic sweeps per route flavour x {ADD-PATH off,on} x {extended message off,on} x prefix lengths: (count) N routes sharing a small attribute set whose filler attribute steps across the 255/256 extended-length boundary, N around the number that fits one message and its multiples, up to 20000; (withdraw) N withdrawals likewise; (size) a filler attribute sized so that the single-route message is limit-k octets for every k in the stated range, N around the fitting count, with and without bystander routes. evaluations = cases. distinct_nontrivial = distinct (config, packing shape) reached (see part lists)"
	counter := &c11LogCounter{m: map[uint64]int64{}}
	old := slog.Default()
	slog.SetDefault(slog.New(counter))
	defer slog.SetDefault(old)
	if r.ReplayPath() != "" {
		var cs c11BCase
		if err := r.LoadReplay(&cs); err != nil {
			t.Fatal(err)
		}
		c := c11NewCtx(r)
		c11NewBWorld(t).run(c, cs, counter.mine())
		c11Flush(r, []*c11Ctx{c})
		return
	}
	par, over, bounds := c11BoundaryCases(vr.Thorough())
	for k, v := range bounds {
		r.Bounds[k] = v
	}
	r.Bounds["cases_all_routes_fit"] = len(par)
	r.Bounds["cases_with_oversize_route"] = len(over)
	par = append(par, over...)
	// cases that share (flavour, prefix lengths, attribute set) share their paths: keep them on one
	// worker, largest N first; groups are spread over the workers by decreasing cost
	W := vr.Workers()
	groups := map[string][]int{}
	cost := map[string]int{}
	for i, cs := range par {
		k := fmt.Sprintf("%d/%d/%d", cs.Flavour, cs.Mask, cs.Filler)
		groups[k] = append(groups[k], i)
		cost[k] += cs.N + 50
	}
	gk := make([]string, 0, len(groups))
	for k := range groups {
		gk = append(gk, k)
		g := groups[k]
		sort.SliceStable(g, func(a, b int) bool { return par[g[a]].N > par[g[b]].N })
	}
	sort.Slice(gk, func(a, b int) bool {
		if cost[gk[a]] != cost[gk[b]] {
			return cost[gk[a]] > cost[gk[b]]
		}
		return gk[a] < gk[b]
	})
	load := make([]int, W)
	plan := make([][]int, W)
	for _, k := range gk {
		best := 0
		for w := range load {
			if load[w] < load[best] {
				best = w
			}
		}
		load[best] += cost[k]
		plan[best] = append(plan[best], groups[k]...)
	}
	ctxs := make([]*c11Ctx, W)
	r.Parallel(W, func(wk int, rep *vr.Report) {
		c := c11NewCtx(rep)
		ctxs[wk] = c
		w := c11NewBWorld(t)
		logs := counter.mine()
		for j, i := range plan[wk] {
			c.idx = int64(par[i].N)*1000000 + int64(i) // fewest routes first
			w.run(c, par[i], logs)
			if c.WantSample() && j%(len(plan[wk])/2+1) == 1 {
				cs := par[i]
				cs.Part, cs.Text = "boundary", cs.describe()
				c.Sample(cs)
			}
		}
	})
	c11Flush(r, ctxs)
}
