package server

// C12, restarting-speaker half: a daemon started in graceful-restart mode (every GR neighbour has
// LocalRestarting set, as `gobgpd -r` does) withholds its advertisements to a GR peer until every GR
// peer has sent End-of-RIB or that peer's deferral timer fires; after that the peer holds exactly the
// export of the Loc-RIB, followed by End-of-RIB.

import (
	"fmt"
	"net/netip"
	"strings"
	"testing"
	"time"

	"github.com/osrg/gobgp/v4/internal/verif/vr"
	"github.com/osrg/gobgp/v4/pkg/apiutil"
	"github.com/osrg/gobgp/v4/pkg/config/oc"
	"github.com/osrg/gobgp/v4/pkg/packet/bgp"
)

const c12Deferral = 20

type c12LocalScenario struct {
	rs       *simRoutesScenario
	est      [2]bool
	eor      [2]bool
	released [2]bool
	may      [2]bool // every GR peer has sent End-of-RIB, but the daemon only notices when a peer that is still withheld sends one: release allowed, not yet required
	deferral [2]time.Duration
}

func init() {
	simScenarios["grlocal"] = func(arg string) simScenario { return &c12LocalScenario{rs: &simRoutesScenario{}} }
}

func (sc *c12LocalScenario) ForceDrain() bool { return true }

func (sc *c12LocalScenario) Setup(w *simWorld) {
	w.start()
	for i := 0; i < 2; i++ {
		spec := simBotKinds['e'](i)
		spec.Name = fmt.Sprintf("g%d", i)
		spec.GRFamilies, spec.GRTime = []bgp.Family{bgp.RF_IPv4_UC}, 30
		spec.Neighbor = func(n *oc.Neighbor) {
			n.GracefulRestart.Config.Enabled = true
			n.GracefulRestart.Config.RestartTime = 30
			n.GracefulRestart.Config.DeferralTime = c12Deferral
			n.GracefulRestart.State.LocalRestarting = true // what `gobgpd -r` sets for GR neighbours
			for j := range n.AfiSafis {
				n.AfiSafis[j].MpGracefulRestart.Config.Enabled = true
			}
		}
		w.addBot(spec)
	}
	// a local route that must reach both peers once advertisements are released
	attrs, fam, nlri := sc.rs.attrs(nil, 0, 0)
	_, err := w.s.AddPath(apiutil.AddPathRequest{Paths: []*apiutil.Path{{Family: fam, Nlri: nlri, Attrs: attrs}}})
	w.must(err)
	w.advance(time.Second)
}

func (sc *c12LocalScenario) Enabled(w *simWorld) []simEvent {
	var ev []simEvent
	for i := 0; i < 2; i++ {
		if sc.est[i] {
			ev = append(ev, simEvent{Op: "eor", Bot: i}, simEvent{Op: "ann", Bot: i}, simEvent{Op: "down", Bot: i})
		} else {
			ev = append(ev, simEvent{Op: "up", Bot: i})
		}
	}
	ev = append(ev, simEvent{Op: "w1"}, simEvent{Op: "w19"})
	if len(w.viol) > 0 {
		return nil
	}
	return ev
}

func (sc *c12LocalScenario) allEnd() bool {
	for i := 0; i < 2; i++ {
		// a GR-configured peer that is not established, or has not sent End-of-RIB, is still awaited
		if !sc.est[i] || !sc.eor[i] {
			return false
		}
	}
	return true
}

func (sc *c12LocalScenario) releaseAll() {
	for i := range sc.released {
		sc.released[i] = true
		sc.may[i] = false
		sc.deferral[i] = 0
	}
}

func (sc *c12LocalScenario) elapse(d time.Duration) {
	for i := 0; i < 2; i++ {
		if sc.deferral[i] > 0 {
			sc.deferral[i] -= d
			if sc.deferral[i] <= 0 {
				sc.deferral[i] = 0
				if sc.est[i] {
					sc.released[i] = true
					sc.may[i] = false
				}
			}
		}
	}
}

func (sc *c12LocalScenario) Apply(w *simWorld, e simEvent) {
	switch e.Op {
	case "up":
		b := w.bots[e.Bot]
		p := w.peer(b)
		for i := 0; i < 10 && p != nil && p.State() == bgp.BGP_FSM_IDLE; i++ {
			w.advance(time.Second)
			sc.elapse(time.Second)
		}
		if b.handshake() {
			sc.est[e.Bot] = true
			sc.eor[e.Bot] = false
			if !sc.released[e.Bot] {
				if sc.allEnd() {
					sc.releaseAll()
				} else {
					sc.deferral[e.Bot] = c12Deferral * time.Second
				}
			}
		}
	case "down":
		// one second passes first: a session that ends at the very instant it was established is a
		// corner of the daemon's "was the peer down recently" guard that the property does not speak about
		w.advance(time.Second)
		sc.elapse(time.Second)
		w.bots[e.Bot].disconnect()
		sc.est[e.Bot], sc.eor[e.Bot] = false, false
		sc.deferral[e.Bot] = 0
	case "eor":
		w.bots[e.Bot].sendMsg(bgp.NewBGPUpdateMessage(nil, nil, nil))
		sc.eor[e.Bot] = true
		if (!sc.released[0] || !sc.released[1]) && sc.allEnd() {
			if !sc.released[e.Bot] {
				sc.releaseAll()
			} else {
				// the End-of-RIB came from a peer that was already released by its deferral
				// timer: the others may be released now and must be at their own deferral expiry
				for i := range sc.may {
					sc.may[i] = !sc.released[i]
				}
			}
		}
	case "ann":
		b := w.bots[e.Bot]
		b.sendMsg(sc.rs.updateMsg(b, 1, 0, 0, false))
	case "w1", "w19":
		d := time.Second
		if e.Op == "w19" {
			d = 19 * time.Second
		}
		w.advance(d)
		sc.elapse(d)
	}
	w.settle()
	sc.rs.foldNew(w)
}

func (sc *c12LocalScenario) Check(w *simWorld, last *simEvent) {
	ev := "init"
	if last != nil {
		ev = last.Op
	}
	for i := 0; i < 2; i++ {
		b := w.bots[i]
		p := w.peer(b)
		if !sc.est[i] || p == nil || p.State() != bgp.BGP_FSM_ESTABLISHED {
			continue
		}
		eors := 0
		for _, rx := range b.rxAll() {
			if rx.Msg != nil && rx.Msg.Header.Type == bgp.BGP_MSG_UPDATE {
				if ok, _ := rx.Msg.Body.(*bgp.BGPUpdate).IsEndOfRib(); ok {
					eors++
				}
			}
		}
		if !sc.released[i] && sc.may[i] {
			if len(b.view) == 0 && eors == 0 {
				w.stat("may-release-still-withheld")
				continue
			}
			w.stat("may-release-released")
		} else if !sc.released[i] {
			w.stat("withheld-checked")
			if len(b.view) != 0 || eors != 0 {
				w.violate("C12:local-restart:advertised-before-release:"+ev, "after %s: %s has been sent %d routes and %d End-of-RIB although not every GR peer has sent End-of-RIB and its deferral timer (%v left) has not fired; model est=%v eor=%v", ev, b.spec.Name, len(b.view), eors, sc.deferral[i], sc.est, sc.eor)
			}
			continue
		}
		w.stat("released-checked")
		exp, _ := sc.rs.expectedExport(w, b, p)
		if a, e := simViewString(b.view), simViewString(exp); a != e {
			d := simDiff(b.view, exp)
			w.violate("C12:local-restart:view-differs-from-export-after-release:"+d.class+":"+ev, "after %s: advertisements to %s are released but it holds\n%s while the export of the Loc-RIB is\n%s%s (model est=%v eor=%v)", ev, b.spec.Name, a, e, d.text, sc.est, sc.eor)
		}
		if eors == 0 {
			w.violate("C12:local-restart:no-end-of-rib-after-release:"+ev, "after %s: advertisements to %s are released but no End-of-RIB was sent to it", ev, b.spec.Name)
		}
	}
}

func (sc *c12LocalScenario) Key(w *simWorld) string {
	lr := ""
	for _, b := range w.bots {
		if p := w.peer(b); p != nil {
			lr += fmt.Sprint(p.fsm.pConf.ReadOnly().GracefulRestart.State.LocalRestarting)
		}
	}
	return fmt.Sprintf("est=%v eor=%v rel=%v may=%v def=%v lr=%s|%s", sc.est, sc.eor, sc.released, sc.may, sc.deferral, lr, w.stateKey())
}

func TestVerif_C12_Local(t *testing.T) {
	r := vr.Start(t, "C12", "local")
	defer r.Finish()
	r.Rule = "explicit-state BFS over histories {session up / down of two GR peers, End-of-RIB from each, a route announced by each, wait 1 s / 19 s} on a daemon started in graceful-restart mode (deferral time 20 s), in lock-step with the reference rule 'advertisements to a GR peer are withheld until every GR peer has sent End-of-RIB or its deferral timer fires'; non-trivial = distinct (model, daemon) state"
	if r.ReplayPath() != "" {
		var rp simReplay
		if err := r.LoadReplay(&rp); err != nil {
			t.Fatal(err)
		}
		simReplayOne(t, r, rp)
		return
	}
	depth, budget := 6, 60*time.Second
	if vr.Thorough() {
		depth, budget = 9, 10*time.Minute
	}
	simExplore(t, r, simExploreCfg{Scenario: "grlocal", Depth: depth, Budget: budget})
	if r.Outcomes["withheld-checked"] == 0 || r.Outcomes["released-checked"] == 0 {
		t.Fatalf("ENGINE-ERROR vacuous exploration %v", r.Outcomes)
	}
	simConfirm(t, r, 5)
	_ = netip.Addr{}
	_ = strings.Contains
}
