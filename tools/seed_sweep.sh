#!/bin/bash
# seed_sweep.sh <id> [check-args...]: apply /verif/seeded/<id>/patch.diff to a scratch worktree of /repo HEAD and run the given
# checks (default: the property's own check) against it; prints one line per check: id, check, rc, violation keys.
set -u
ID=$1; shift
P=${ID%-*}
WT=/tmp/seedsweep-$ID
export GOFLAGS=-mod=mod GOPROXY=off
git -C /repo worktree remove --force $WT >/dev/null 2>&1
git -C /repo worktree add -q --detach $WT HEAD || exit 2
cd $WT
if ! git apply /verif/seeded/$ID/patch.diff 2>/dev/null; then echo "$ID: PATCH DOES NOT APPLY to HEAD"; cd /; git -C /repo worktree remove --force $WT; exit 3; fi
if ! go build ./... >/dev/null 2>&1; then echo "$ID: DOES NOT BUILD"; cd /; git -C /repo worktree remove --force $WT; exit 3; fi
cd /verif
[ $# -eq 0 ] && set -- "$P"
for c in "$@"; do
  out=$(VERIF_REPO=$WT ./check $c --no-evidence 2>&1); rc=$?
  keys=$(echo "$out" | grep -a -o "key=[^ ]*" | sort -u | head -4 | paste -sd' ')
  echo "$ID: ./check $c -> rc=$rc $keys"
done
cd /; git -C /repo worktree remove --force $WT
