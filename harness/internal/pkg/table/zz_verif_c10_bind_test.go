package table

// C10 — binding of the plain-data programs / routes to the real gobgp code:
// oc.* configuration structs -> RoutingPolicy.Reset (or the incremental Add* API) -> ApplyPolicy,
// UPDATE bytes -> bgp.ParseBGPMessage -> ProcessMessage -> *Path, and the projection of a *Path back
// to the flat form the oracle produces.

import (
	"bytes"
	"encoding/hex"
	"fmt"
	"log/slog"
	"net/netip"
	"runtime"
	"strings"
	"time"

	"github.com/osrg/gobgp/v4/pkg/config/oc"
	"github.com/osrg/gobgp/v4/pkg/packet/bgp"
)

type c10Discard struct{}

func (c10Discard) Write(b []byte) (int, error) { return len(b), nil }

var c10Logger = slog.New(slog.NewTextHandler(c10Discard{}, &slog.HandlerOptions{Level: slog.LevelError + 4}))

// ---- program -> configuration ----

func c10MatchOpt(o string) oc.MatchSetOptionsType {
	return oc.MatchSetOptionsType(o)
}

// c10Config builds the oc.RoutingPolicy of a program. Only the defined sets the program refers to are
// declared. Policies are named p0,p1,..; statements p<i>s<j>.
func c10Config(prog c10Prog) oc.RoutingPolicy {
	var rp oc.RoutingPolicy
	seen := map[string]bool{}
	for pi, pol := range prog.Policies {
		pd := oc.PolicyDefinition{Name: fmt.Sprintf("p%d", pi)}
		for si, st := range pol {
			s := oc.Statement{Name: fmt.Sprintf("p%ds%d", pi, si)}
			for _, c := range st.Conds {
				c10AddCond(&rp, seen, &s.Conditions, c)
			}
			for _, a := range st.Acts {
				c10AddAct(&s.Actions.BgpActions, a)
			}
			switch st.Disp {
			case "accept":
				s.Actions.RouteDisposition = oc.ROUTE_DISPOSITION_ACCEPT_ROUTE
			case "reject":
				s.Actions.RouteDisposition = oc.ROUTE_DISPOSITION_REJECT_ROUTE
			default:
				s.Actions.RouteDisposition = oc.ROUTE_DISPOSITION_NONE
			}
			pd.Statements = append(pd.Statements, s)
		}
		rp.PolicyDefinitions = append(rp.PolicyDefinitions, pd)
	}
	return rp
}

func c10AddCond(rp *oc.RoutingPolicy, seen map[string]bool, cs *oc.Conditions, c c10Cond) {
	first := !seen[c.Kind+"/"+c.Set]
	seen[c.Kind+"/"+c.Set] = true
	ds := &rp.DefinedSets
	switch c.Kind {
	case "prefix":
		cs.MatchPrefixSet = oc.MatchPrefixSet{PrefixSet: c.Set, MatchSetOptions: oc.MatchSetOptionsRestrictedType(c.Opt)}
		if first {
			ps := oc.PrefixSet{PrefixSetName: c.Set}
			for _, e := range c.Pfx {
				p := oc.Prefix{IpPrefix: netip.MustParsePrefix(e.P)}
				if e.Min >= 0 {
					p.MasklengthRange = fmt.Sprintf("%d..%d", e.Min, e.Max)
				}
				ps.PrefixList = append(ps.PrefixList, p)
			}
			ds.PrefixSets = append(ds.PrefixSets, ps)
		}
	case "neighbor":
		cs.MatchNeighborSet = oc.MatchNeighborSet{NeighborSet: c.Set, MatchSetOptions: oc.MatchSetOptionsRestrictedType(c.Opt)}
		if first {
			ds.NeighborSets = append(ds.NeighborSets, oc.NeighborSet{NeighborSetName: c.Set, NeighborInfoList: append([]string{}, c.Members...)})
		}
	case "nexthop":
		for _, m := range c.Members {
			cs.BgpConditions.NextHopInList = append(cs.BgpConditions.NextHopInList, netip.MustParseAddr(m))
		}
	case "aspath":
		cs.BgpConditions.MatchAsPathSet = oc.MatchAsPathSet{AsPathSet: c.Set, MatchSetOptions: c10MatchOpt(c.Opt)}
		if first {
			ds.BgpDefinedSets.AsPathSets = append(ds.BgpDefinedSets.AsPathSets, oc.AsPathSet{AsPathSetName: c.Set, AsPathList: append([]string{}, c.Members...)})
		}
	case "comm":
		cs.BgpConditions.MatchCommunitySet = oc.MatchCommunitySet{CommunitySet: c.Set, MatchSetOptions: c10MatchOpt(c.Opt)}
		if first {
			ds.BgpDefinedSets.CommunitySets = append(ds.BgpDefinedSets.CommunitySets, oc.CommunitySet{CommunitySetName: c.Set, CommunityList: append([]string{}, c.Members...)})
		}
	case "ext":
		cs.BgpConditions.MatchExtCommunitySet = oc.MatchExtCommunitySet{ExtCommunitySet: c.Set, MatchSetOptions: c10MatchOpt(c.Opt)}
		if first {
			ds.BgpDefinedSets.ExtCommunitySets = append(ds.BgpDefinedSets.ExtCommunitySets, oc.ExtCommunitySet{ExtCommunitySetName: c.Set, ExtCommunityList: append([]string{}, c.Members...)})
		}
	case "large":
		cs.BgpConditions.MatchLargeCommunitySet = oc.MatchLargeCommunitySet{LargeCommunitySet: c.Set, MatchSetOptions: c10MatchOpt(c.Opt)}
		if first {
			ds.BgpDefinedSets.LargeCommunitySets = append(ds.BgpDefinedSets.LargeCommunitySets, oc.LargeCommunitySet{LargeCommunitySetName: c.Set, LargeCommunityList: append([]string{}, c.Members...)})
		}
	case "aslen":
		cs.BgpConditions.AsPathLength = oc.AsPathLength{Operator: oc.AttributeComparison(c.Op), Value: c.Val}
	case "commcount":
		cs.BgpConditions.CommunityCount = oc.CommunityCount{Operator: oc.AttributeComparison(c.Op), Value: c.Val}
	case "origin":
		cs.BgpConditions.OriginEq = oc.BgpOriginAttrType(c.Str)
	case "rtype":
		cs.BgpConditions.RouteType = oc.RouteType(c.Str)
	case "rpki":
		cs.BgpConditions.RpkiValidationResult = oc.RpkiValidationResultType(c.Str)
	case "afisafi":
		for _, m := range c.Members {
			cs.BgpConditions.AfiSafiInList = append(cs.BgpConditions.AfiSafiInList, oc.AfiSafiType(m))
		}
	case "lpeq":
		cs.BgpConditions.LocalPrefEq = c.Val
	case "medeq":
		cs.BgpConditions.MedEq = c.Val
	default:
		panic("c10: cond kind " + c.Kind)
	}
}

func c10AddAct(ba *oc.BgpActions, a c10Act) {
	switch a.Kind {
	case "comm":
		ba.SetCommunity = oc.SetCommunity{Options: a.Opt, SetCommunityMethod: oc.SetCommunityMethod{CommunitiesList: append([]string{}, a.Members...)}}
	case "ext":
		ba.SetExtCommunity = oc.SetExtCommunity{Options: a.Opt, SetExtCommunityMethod: oc.SetExtCommunityMethod{CommunitiesList: append([]string{}, a.Members...)}}
	case "large":
		ba.SetLargeCommunity = oc.SetLargeCommunity{Options: oc.BgpSetCommunityOptionType(a.Opt), SetLargeCommunityMethod: oc.SetLargeCommunityMethod{CommunitiesList: append([]string{}, a.Members...)}}
	case "med":
		ba.SetMed = oc.BgpSetMedType(a.Str)
	case "lp":
		ba.SetLocalPref = a.Val
	case "origin":
		ba.SetRouteOrigin = oc.BgpOriginAttrType(a.Str)
	case "prepend":
		ba.SetAsPathPrepend = oc.SetAsPathPrepend{As: a.Str, RepeatN: a.N}
	case "nh":
		ba.SetNextHop = oc.BgpNextHopType(a.Str)
	default:
		panic("c10: act kind " + a.Kind)
	}
}

// c10Assign describes one (id, direction) assignment.
type c10Assign struct {
	ID       string
	Import   []string
	ImportDf string
	Export   []string
	ExportDf string
}

func c10DefType(s string) oc.DefaultPolicyType {
	if s == "reject" {
		return oc.DEFAULT_POLICY_TYPE_REJECT_ROUTE
	}
	return oc.DEFAULT_POLICY_TYPE_ACCEPT_ROUTE
}

// c10Build: the configuration path of the daemon (RoutingPolicy.Reset with the peers' apply-policy).
func c10Build(rp oc.RoutingPolicy, as []c10Assign) (*RoutingPolicy, error) {
	r := NewRoutingPolicy(c10Logger)
	ap := map[string]oc.ApplyPolicy{}
	for _, a := range as {
		ap[a.ID] = oc.ApplyPolicy{Config: oc.ApplyPolicyConfig{
			ImportPolicyList: a.Import, DefaultImportPolicy: c10DefType(a.ImportDf),
			ExportPolicyList: a.Export, DefaultExportPolicy: c10DefType(a.ExportDf)}}
	}
	if err := r.Reset(&rp, ap); err != nil {
		return nil, err
	}
	return r, nil
}

// c10BuildIncremental: the management-API path (AddDefinedSet, AddPolicy, AddPolicyAssignment one by one).
func c10BuildIncremental(rp oc.RoutingPolicy, as []c10Assign) (*RoutingPolicy, error) {
	r := NewRoutingPolicy(c10Logger)
	if err := r.Initialize(); err != nil {
		return nil, err
	}
	add := func(s DefinedSet, err error) error {
		if err != nil {
			return err
		}
		return r.AddDefinedSet(s, false)
	}
	for _, x := range rp.DefinedSets.PrefixSets {
		s, err := NewPrefixSet(x)
		if e := add(s, err); e != nil {
			return nil, e
		}
	}
	for _, x := range rp.DefinedSets.NeighborSets {
		s, err := NewNeighborSet(x)
		if e := add(s, err); e != nil {
			return nil, e
		}
	}
	for _, x := range rp.DefinedSets.BgpDefinedSets.AsPathSets {
		s, err := NewAsPathSet(x)
		if e := add(s, err); e != nil {
			return nil, e
		}
	}
	for _, x := range rp.DefinedSets.BgpDefinedSets.CommunitySets {
		s, err := NewCommunitySet(x)
		if e := add(s, err); e != nil {
			return nil, e
		}
	}
	for _, x := range rp.DefinedSets.BgpDefinedSets.ExtCommunitySets {
		s, err := NewExtCommunitySet(x)
		if e := add(s, err); e != nil {
			return nil, e
		}
	}
	for _, x := range rp.DefinedSets.BgpDefinedSets.LargeCommunitySets {
		s, err := NewLargeCommunitySet(x)
		if e := add(s, err); e != nil {
			return nil, e
		}
	}
	for _, pd := range rp.PolicyDefinitions {
		p, err := NewPolicy(pd)
		if err != nil {
			return nil, err
		}
		if err := r.AddPolicy(p, false); err != nil {
			return nil, err
		}
	}
	defRT := func(s string) RouteType {
		if s == "reject" {
			return ROUTE_TYPE_REJECT
		}
		return ROUTE_TYPE_ACCEPT
	}
	for _, a := range as {
		// one policy at a time, so that AddPolicyAssignment's append path is used as well
		for dir, names := range map[PolicyDirection][]string{POLICY_DIRECTION_IMPORT: a.Import, POLICY_DIRECTION_EXPORT: a.Export} {
			def := defRT(a.ImportDf)
			if dir == POLICY_DIRECTION_EXPORT {
				def = defRT(a.ExportDf)
			}
			if len(names) == 0 {
				if err := r.AddPolicyAssignment(a.ID, dir, nil, def); err != nil {
					return nil, err
				}
			}
			for _, n := range names {
				if err := r.AddPolicyAssignment(a.ID, dir, []*oc.PolicyDefinition{{Name: n}}, def); err != nil {
					return nil, err
				}
			}
		}
	}
	return r, nil
}

// ---- route -> *Path ----

func c10PeerInfo(src string, as uint32) *PeerInfo {
	if src == "" {
		return nil // locally originated
	}
	pi := &PeerInfo{AS: as, Address: netip.MustParseAddr(src), ID: netip.MustParseAddr("10.255.0.1"), LocalAS: c10LocalAS,
		LocalID: netip.MustParseAddr("10.255.0.254"), LocalAddress: netip.MustParseAddr("10.0.0.254")}
	if as == c10LocalAS {
		pi.PeerType = oc.PEER_TYPE_INTERNAL
	} else {
		pi.PeerType = oc.PEER_TYPE_EXTERNAL
	}
	return pi
}

func c10ExtFromRaw(h string) bgp.ExtendedCommunityInterface {
	b, _ := hex.DecodeString(h)
	e, err := bgp.ParseExtended(b)
	if err != nil {
		panic(err)
	}
	return e
}

// c10Attrs builds the attribute list of a route. spare > 0 gives every list-valued attribute that much
// unused capacity behind its last element (what a decoder or an earlier append may leave behind).
func c10Attrs(r c10Route, spare int) []bgp.PathAttributeInterface {
	attrs := []bgp.PathAttributeInterface{bgp.NewPathAttributeOrigin(uint8(r.Origin))}
	segs := make([]bgp.AsPathParamInterface, 0, len(r.Path)+spare)
	for _, s := range r.Path {
		as := make([]uint32, len(s.AS), len(s.AS)+spare)
		copy(as, s.AS)
		segs = append(segs, bgp.NewAs4PathParam(s.T, as))
	}
	attrs = append(attrs, bgp.NewPathAttributeAsPath(segs))
	if !r.V6 {
		nh, _ := bgp.NewPathAttributeNextHop(netip.MustParseAddr(r.NH))
		attrs = append(attrs, nh)
	}
	if r.MED >= 0 {
		attrs = append(attrs, bgp.NewPathAttributeMultiExitDisc(uint32(r.MED)))
	}
	if r.LP >= 0 {
		attrs = append(attrs, bgp.NewPathAttributeLocalPref(uint32(r.LP)))
	}
	if len(r.Comms) > 0 {
		c := make([]uint32, len(r.Comms), len(r.Comms)+spare)
		copy(c, r.Comms)
		attrs = append(attrs, bgp.NewPathAttributeCommunities(c))
	}
	if r.V6 {
		nlri, _ := bgp.NewIPAddrPrefix(netip.MustParsePrefix(r.Prefix))
		mp, err := bgp.NewPathAttributeMpReachNLRI(bgp.RF_IPv6_UC, []bgp.PathNLRI{{NLRI: nlri}}, netip.MustParseAddr(r.NH))
		if err != nil {
			panic(err)
		}
		attrs = append(attrs, mp)
	}
	if len(r.Ext) > 0 {
		e := make([]bgp.ExtendedCommunityInterface, 0, len(r.Ext)+spare)
		for _, x := range r.Ext {
			e = append(e, c10ExtFromRaw(x.Raw))
		}
		attrs = append(attrs, bgp.NewPathAttributeExtendedCommunities(e))
	}
	if len(r.Large) > 0 {
		l := make([]*bgp.LargeCommunity, 0, len(r.Large)+spare)
		for _, x := range r.Large {
			l = append(l, bgp.NewLargeCommunity(x[0], x[1], x[2]))
		}
		attrs = append(attrs, bgp.NewPathAttributeLargeCommunities(l))
	}
	return attrs
}

// c10MakePath builds the stored path of a route.
//
//	spare == 0: the route goes over the wire — UPDATE bytes -> ParseBGPMessage -> ProcessMessage, i.e.
//	            every slice has exactly the capacity the real decoder leaves;
//	spare  > 0: the attribute objects are handed to ProcessMessage directly (as an API-injected or
//	            previously modified route would be) with `spare` unused elements behind every list.
//
// Locally originated routes (no source peer) are created with NewPath, as the API path does.
func c10MakePath(r c10Route, spare int) *Path {
	attrs := c10Attrs(r, spare)
	nlri, _ := bgp.NewIPAddrPrefix(netip.MustParsePrefix(r.Prefix))
	var msg *bgp.BGPMessage
	if r.V6 {
		msg = bgp.NewBGPUpdateMessage(nil, attrs, nil)
	} else {
		msg = bgp.NewBGPUpdateMessage(nil, attrs, []bgp.PathNLRI{{NLRI: nlri}})
	}
	if spare == 0 {
		b, err := msg.Serialize()
		if err != nil {
			panic(err)
		}
		if msg, err = bgp.ParseBGPMessage(b); err != nil {
			panic(err)
		}
	}
	pi := c10PeerInfo(r.Src, r.SrcAS)
	if pi == nil {
		// local route: attributes as decoded, source = nil
		u := msg.Body.(*bgp.BGPUpdate)
		fam := bgp.RF_IPv4_UC
		if r.V6 {
			fam = bgp.RF_IPv6_UC
		}
		return NewPath(fam, nil, bgp.PathNLRI{NLRI: nlri}, false, u.PathAttributes, time.Unix(1000, 0), false)
	}
	ps := ProcessMessage(msg, pi, time.Unix(1000, 0), false)
	if len(ps) != 1 {
		panic(fmt.Sprintf("c10: ProcessMessage returned %d paths for %s", len(ps), r.Name))
	}
	return ps[0]
}

func c10Options(e c10Env) *PolicyOptions {
	o := &PolicyOptions{}
	if e.Peer != "" {
		o.Info = &PeerInfo{AS: 65009, Address: netip.MustParseAddr(e.Peer), LocalAS: c10LocalAS, LocalAddress: netip.MustParseAddr(e.Local),
			ID: netip.MustParseAddr("10.255.0.9"), LocalID: netip.MustParseAddr("10.255.0.254"), PeerType: oc.PEER_TYPE_EXTERNAL, Confederation: e.Confed}
	}
	if e.OldNH != "" {
		o.OldNextHop = netip.MustParseAddr(e.OldNH)
	}
	if e.RPKI != "" {
		v := &Validation{Status: oc.RpkiValidationResultType(e.RPKI)}
		o.Validate = func(*Path) *Validation { return v }
	}
	return o
}

// ---- *Path -> flat projection (reads the attribute objects a peer would be sent) ----

func c10Project(p *Path) c10Route {
	r := c10Route{MED: -1, LP: -1, Origin: -1}
	for _, a := range p.GetPathAttrs() {
		switch v := a.(type) {
		case *bgp.PathAttributeOrigin:
			r.Origin = int(v.Value)
		case *bgp.PathAttributeAsPath:
			for _, s := range v.Value {
				r.Path = append(r.Path, c10Seg{s.GetType(), append([]uint32{}, s.GetAS()...)})
			}
		case *bgp.PathAttributeNextHop:
			r.NH = v.Value.String()
		case *bgp.PathAttributeMpReachNLRI:
			r.NH = v.Nexthop.String()
		case *bgp.PathAttributeMultiExitDisc:
			r.MED = int64(v.Value)
		case *bgp.PathAttributeLocalPref:
			r.LP = int64(v.Value)
		case *bgp.PathAttributeCommunities:
			r.Comms = append([]uint32{}, v.Value...)
		case *bgp.PathAttributeExtendedCommunities:
			for _, e := range v.Value {
				b, _ := e.Serialize()
				r.Ext = append(r.Ext, c10Ext{Raw: hex.EncodeToString(b)})
			}
		case *bgp.PathAttributeIP6ExtendedCommunities:
			for _, e := range v.Value {
				b, _ := e.Serialize()
				r.Ext6 = append(r.Ext6, hex.EncodeToString(b))
			}
		case *bgp.PathAttributeLargeCommunities:
			for _, l := range v.Values {
				r.Large = append(r.Large, c10Large{l.ASN, l.LocalData1, l.LocalData2})
			}
		}
	}
	return r
}

// c10Snapshot serialises everything a peer would be told about the path.
func c10Snapshot(p *Path) []byte {
	var b bytes.Buffer
	fmt.Fprintf(&b, "%s|%s|w=%v|", p.GetFamily(), p.GetNlri().String(), p.IsWithdraw)
	for _, a := range p.GetPathAttrs() {
		x, err := a.Serialize()
		if err != nil {
			fmt.Fprintf(&b, "ERR(%v)", err)
		}
		b.Write(x)
		b.WriteByte('|')
	}
	return b.Bytes()
}

// c10PanicSite: top gobgp (non-harness) frame of the current panic, for a stable violation key.
func c10PanicSite() string {
	pc := make([]uintptr, 40)
	n := runtime.Callers(3, pc)
	fr := runtime.CallersFrames(pc[:n])
	for {
		f, more := fr.Next()
		if strings.Contains(f.File, "/gobgp/") || strings.Contains(f.File, "/repo/") || strings.Contains(f.File, "/wt-") {
			if !strings.Contains(f.File, "zz_verif_") && !strings.Contains(f.File, "/internal/verif/") {
				i := strings.LastIndex(f.File, "/")
				return fmt.Sprintf("%s:%d", f.File[i+1:], f.Line)
			}
		}
		if !more {
			return "unknown"
		}
	}
}

// c10Apply calls the real ApplyPolicy under recover.
func c10Apply(r *RoutingPolicy, id string, dir PolicyDirection, p *Path, o *PolicyOptions) (out *Path, panicked string) {
	defer func() {
		if x := recover(); x != nil {
			panicked = fmt.Sprintf("%s: %v", c10PanicSite(), x)
		}
	}()
	return r.ApplyPolicy(id, dir, p, o), ""
}
