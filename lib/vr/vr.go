// Package vr is the result recorder shared by every verification harness.
// It is injected into the gobgp module as the virtual package
// github.com/osrg/gobgp/v4/internal/verif/vr by the overlay that /verif/check generates.
package vr

import (
	"encoding/json"
	"fmt"
	"hash/fnv"
	"os"
	"sort"
	"strconv"
	"sync"
	"testing"
	"time"
)

// Violation is one failing case. Key is a stable signature of the failure (what known_findings.json
// matches on); Replay is whatever the harness needs to re-execute exactly that case.
type Violation struct {
	Key    string `json:"key"`
	What   string `json:"what"`
	Replay any    `json:"replay,omitempty"`
	Count  int64  `json:"count"`
}

type Report struct {
	mu sync.Mutex

	Property string `json:"property_id"`
	Part     string `json:"part"`
	Tier     string `json:"tier"`
	Seed     int64  `json:"seed"`

	Evaluations int64            `json:"evaluations"`
	Nontrivial  int64            `json:"distinct_nontrivial"`
	Rule        string           `json:"rule"`
	Samples     []any            `json:"samples"`
	Exhaustive  bool             `json:"exhaustive"`
	Bounds      map[string]any   `json:"bounds,omitempty"`
	Outcomes    map[string]int64 `json:"outcomes,omitempty"`
	CapsHit     []string         `json:"caps_hit,omitempty"`
	States      int64            `json:"states,omitempty"`
	Transitions int64            `json:"transitions,omitempty"`
	Traces      int64            `json:"traces_validated_against_impl,omitempty"`
	Extra       map[string]any   `json:"extra,omitempty"`
	Assumptions []string         `json:"assumptions,omitempty"`
	Violations  []*Violation     `json:"violations"`
	WallS       float64          `json:"wall_s"`

	nt      map[uint64]struct{}
	vidx    map[string]*Violation
	start   time.Time
	maxSamp int
	replay  string
	tb      testing.TB
}

// Tier returns "quick" or "thorough".
func Tier() string {
	if os.Getenv("VERIF_TIER") == "thorough" {
		return "thorough"
	}
	return "quick"
}

func Thorough() bool { return Tier() == "thorough" }

// Workers is the number of in-process workers an E-SEQ harness should use.
func Workers() int {
	if s := os.Getenv("VERIF_WORKERS"); s != "" {
		if n, err := strconv.Atoi(s); err == nil && n > 0 {
			return n
		}
	}
	return 16
}

func Start(tb testing.TB, property, part string) *Report {
	seed, _ := strconv.ParseInt(os.Getenv("VERIF_SEED"), 10, 64)
	r := &Report{
		Property: property, Part: part, Tier: Tier(), Seed: seed,
		Exhaustive: true,
		Bounds:     map[string]any{}, Outcomes: map[string]int64{}, Extra: map[string]any{},
		nt: map[uint64]struct{}{}, vidx: map[string]*Violation{},
		start: time.Now(), maxSamp: 6, tb: tb,
		replay: os.Getenv("VERIF_REPLAY"),
	}
	return r
}

// ReplayPath is non-empty when the check was invoked with --replay <file>.
func (r *Report) ReplayPath() string { return r.replay }

// LoadReplay decodes the "replay" member of a replay artefact into v.
func (r *Report) LoadReplay(v any) error {
	b, err := os.ReadFile(r.replay)
	if err != nil {
		return err
	}
	var art struct {
		Replay json.RawMessage `json:"replay"`
	}
	if err := json.Unmarshal(b, &art); err != nil {
		return err
	}
	return json.Unmarshal(art.Replay, v)
}

// Fork returns an unsynchronised child for one worker goroutine; Merge folds it back.
func (r *Report) Fork() *Report {
	return &Report{Property: r.Property, Part: r.Part, Exhaustive: true,
		Bounds: map[string]any{}, Outcomes: map[string]int64{}, Extra: map[string]any{},
		nt: map[uint64]struct{}{}, vidx: map[string]*Violation{}, maxSamp: r.maxSamp}
}

func (r *Report) Merge(c *Report) {
	r.mu.Lock()
	defer r.mu.Unlock()
	r.Evaluations += c.Evaluations
	r.States += c.States
	r.Transitions += c.Transitions
	r.Traces += c.Traces
	for h := range c.nt {
		r.nt[h] = struct{}{}
	}
	for k, v := range c.Outcomes {
		r.Outcomes[k] += v
	}
	for _, s := range c.Samples {
		if len(r.Samples) < r.maxSamp {
			r.Samples = append(r.Samples, s)
		}
	}
	for _, v := range c.Violations {
		r.addViolation(v.Key, v.What, v.Replay, v.Count)
	}
	r.CapsHit = append(r.CapsHit, c.CapsHit...)
	if !c.Exhaustive {
		r.Exhaustive = false
	}
}

func (r *Report) Eval() { r.Evaluations++ }

// NT records a distinct non-trivial case by its identifying key.
func (r *Report) NT(key string) {
	h := fnv.New64a()
	h.Write([]byte(key))
	r.nt[h.Sum64()] = struct{}{}
}

func (r *Report) Outcome(k string) { r.Outcomes[k]++ }

func (r *Report) Sample(s any) {
	if len(r.Samples) < r.maxSamp {
		r.Samples = append(r.Samples, s)
	}
}

func (r *Report) WantSample() bool { return len(r.Samples) < r.maxSamp }

func (r *Report) Cap(what string) {
	r.CapsHit = append(r.CapsHit, what)
	r.Exhaustive = false
}

func (r *Report) addViolation(key, what string, replay any, n int64) {
	if v, ok := r.vidx[key]; ok {
		v.Count += n
		return
	}
	v := &Violation{Key: key, What: what, Replay: replay, Count: n}
	r.vidx[key] = v
	r.Violations = append(r.Violations, v)
}

// Violation records a failing case; cases with the same key are counted, the first one is kept
// (enumeration is simplest-first, so the first is also the smallest).
func (r *Report) Violation(key, what string, replay any) {
	r.addViolation(key, what, replay, 1)
}

func (r *Report) Violationf(key string, replay any, format string, a ...any) {
	r.addViolation(key, fmt.Sprintf(format, a...), replay, 1)
}

// Finish writes the part result to $VERIF_OUT (if set) and fails the test on violations when run by hand.
func (r *Report) Finish() {
	r.mu.Lock()
	defer r.mu.Unlock()
	r.Nontrivial = int64(len(r.nt))
	r.WallS = time.Since(r.start).Seconds()
	if r.Violations == nil {
		r.Violations = []*Violation{}
	}
	sort.SliceStable(r.Violations, func(i, j int) bool { return r.Violations[i].Key < r.Violations[j].Key })
	if r.Samples == nil {
		r.Samples = []any{}
	}
	out := os.Getenv("VERIF_OUT")
	if out != "" {
		b, err := json.MarshalIndent(r, "", " ")
		if err != nil {
			r.tb.Fatalf("ENGINE-ERROR marshal report: %v", err)
		}
		if err := os.WriteFile(out, b, 0o644); err != nil {
			r.tb.Fatalf("ENGINE-ERROR write report: %v", err)
		}
		r.tb.Logf("part %s/%s: evaluations=%d nontrivial=%d violations=%d exhaustive=%v wall=%.1fs",
			r.Property, r.Part, r.Evaluations, r.Nontrivial, len(r.Violations), r.Exhaustive, r.WallS)
		return
	}
	r.tb.Logf("part %s/%s: evaluations=%d nontrivial=%d violations=%d exhaustive=%v wall=%.1fs outcomes=%v",
		r.Property, r.Part, r.Evaluations, r.Nontrivial, len(r.Violations), r.Exhaustive, r.WallS, r.Outcomes)
	for i, v := range r.Violations {
		if i < 20 {
			r.tb.Errorf("VIOLATION %s x%d: %s", v.Key, v.Count, v.What)
		}
	}
}

// Parallel runs fn(worker, child) on n goroutines and merges the children.
func (r *Report) Parallel(n int, fn func(w int, c *Report)) {
	var wg sync.WaitGroup
	for w := 0; w < n; w++ {
		wg.Add(1)
		go func(w int) {
			defer wg.Done()
			c := r.Fork()
			fn(w, c)
			r.Merge(c)
		}(w)
	}
	wg.Wait()
}
