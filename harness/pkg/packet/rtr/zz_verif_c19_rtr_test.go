package rtr

// C19 (part rtr) — the RPKI-RTR PDU codec decodes safely and round-trips.

import (
	"bytes"
	"encoding/json"
	"fmt"
	"net/netip"
	"strings"
	"testing"
	"time"

	"github.com/osrg/gobgp/v4/internal/verif/c19lib"
	"github.com/osrg/gobgp/v4/internal/verif/vr"
)

// c19WireLen returns the Len field a decoded PDU carries (what Serialize will allocate).
func c19WireLen(m RTRMessage) (uint32, int) {
	switch v := m.(type) {
	case *RTRSerialNotify:
		return v.Len, RTR_SERIAL_NOTIFY_LEN
	case *RTRSerialQuery:
		return v.Len, RTR_SERIAL_QUERY_LEN
	case *RTREndOfData:
		return v.Len, RTR_END_OF_DATA_LEN
	case *RTRCommon:
		return v.Len, 12
	case *RTRResetQuery:
		return v.Len, RTR_RESET_QUERY_LEN
	case *RTRCacheReset:
		return v.Len, RTR_CACHE_RESET_LEN
	case *RTRReset:
		return v.Len, 8
	case *RTRCacheResponse:
		return v.Len, RTR_CACHE_RESPONSE_LEN
	case *RTRIPPrefix:
		if v.Type == RTR_IPV4_PREFIX {
			return v.Len, RTR_IPV4_PREFIX_LEN
		}
		return v.Len, RTR_IPV6_PREFIX_LEN
	case *RTRErrorReport:
		return v.Len, 16
	}
	return 0, 0
}

const c19KeyLen = "C19:rtr-len-unvalidated:"

// c19Render exercises json.Marshal and Serialize on a decoded PDU.
func c19Render(x *c19lib.Checker, m RTRMessage, inputLen int) string {
	j, jerr := json.Marshal(m)
	l, fixed := c19WireLen(m)
	ser := ""
	switch {
	case l > 64<<10 && l != 0x00400000:
		// Serialize would execute make([]byte, m.Len) with the unvalidated wire value (up to 4 GiB):
		// executed only up to 64 KiB and for the 4 MiB demonstrator value, where the allocation is measured.
		if l > 1<<20 {
			x.Violation(c19KeyLen+"serialize-alloc", "decoded %T from %d bytes carries Len=%d; Serialize() allocates make([]byte, m.Len) (not executed)", m, inputLen, l)
		}
		ser = "skipped"
	default:
		var b []byte
		var err error
		if k, msg := c19lib.Guard(func() { b, err = m.Serialize() }); k != "" {
			x.Violation(c19KeyLen+"serialize-panic", "decoded %T (wire Len=%d, PDU needs %d) panics in Serialize: %s", m, l, fixed, msg)
			ser = "panic"
		} else {
			ser = fmt.Sprintf("%d:%x:%v", len(b), b[:min(len(b), 64)], err)
		}
	}
	return fmt.Sprintf("%T|%s|%v|%s", m, j, jerr, ser)
}

func c19DecodeEntry(name string, mk func() RTRMessage) *c19lib.Entry {
	return &c19lib.Entry{
		Name:     name,
		AllocKey: c19KeyLen + "serialize-alloc",
		Run: func(x *c19lib.Checker, data []byte) c19lib.Outcome {
			m := mk()
			if err := m.DecodeFromBytes(data); err != nil {
				return c19lib.Outcome{Err: err.Error()}
			}
			return c19lib.Outcome{OK: true, Val: c19Render(x, m, len(data))}
		},
	}
}

func c19Entries() []*c19lib.Entry {
	return []*c19lib.Entry{
		{
			Name:     "rtr.ParseRTR",
			AllocKey: c19KeyLen + "serialize-alloc",
			Run: func(x *c19lib.Checker, data []byte) c19lib.Outcome {
				m, err := ParseRTR(data)
				if err != nil {
					// ParseRTR returns the partially decoded message together with the error; it is not used by callers
					return c19lib.Outcome{Err: err.Error()}
				}
				return c19lib.Outcome{OK: true, Val: c19Render(x, m, len(data))}
			},
		},
		c19DecodeEntry("rtr.RTRCommon.DecodeFromBytes", func() RTRMessage { return &RTRCommon{} }),
		c19DecodeEntry("rtr.RTRReset.DecodeFromBytes", func() RTRMessage { return &RTRReset{} }),
		c19DecodeEntry("rtr.RTRCacheResponse.DecodeFromBytes", func() RTRMessage { return &RTRCacheResponse{} }),
		c19DecodeEntry("rtr.RTRIPPrefix.DecodeFromBytes", func() RTRMessage { return &RTRIPPrefix{} }),
		c19DecodeEntry("rtr.RTRErrorReport.DecodeFromBytes", func() RTRMessage { return &RTRErrorReport{} }),
	}
}

type c19Msg struct {
	name string
	mk   func() RTRMessage
}

// c19Constructible lists every PDU the package's constructors build over boundary domains.
func c19Constructible(thorough bool) []c19Msg {
	var out []c19Msg
	add := func(name string, mk func() RTRMessage) { out = append(out, c19Msg{name, mk}) }
	ids := []uint16{0, 1, 0x7fff, 0xffff}
	sns := []uint32{0, 1, 0x7fffffff, 0x80000000, 0xffffffff}
	for _, id := range ids {
		for _, sn := range sns {
			add(fmt.Sprintf("SerialNotify(%d,%d)", id, sn), func() RTRMessage { return NewRTRSerialNotify(id, sn) })
			add(fmt.Sprintf("SerialQuery(%d,%d)", id, sn), func() RTRMessage { return NewRTRSerialQuery(id, sn) })
			add(fmt.Sprintf("EndOfData(%d,%d)", id, sn), func() RTRMessage { return NewRTREndOfData(id, sn) })
		}
		add(fmt.Sprintf("CacheResponse(%d)", id), func() RTRMessage { return NewRTRCacheResponse(id) })
	}
	add("ResetQuery", func() RTRMessage { return NewRTRResetQuery() })
	add("CacheReset", func() RTRMessage { return NewRTRCacheReset() })
	type pl struct{ p, m uint8 }
	v4 := []string{"0.0.0.0", "10.1.2.3", "192.0.2.0", "255.255.255.255"}
	v6 := []string{"::", "2001:db8::1", "ffff:ffff:ffff:ffff:ffff:ffff:ffff:ffff", "::ffff:1.2.3.4"}
	l4 := []pl{{0, 0}, {0, 32}, {8, 8}, {24, 24}, {24, 32}, {32, 32}}
	l6 := []pl{{0, 0}, {0, 128}, {48, 64}, {64, 128}, {128, 128}}
	ass := []uint32{0, 1, 65535, 65536, 0xffffffff}
	flags := []uint8{WITHDRAWAL, ANNOUNCEMENT, 0x80, 0xff}
	for _, as := range ass {
		for _, fl := range flags {
			for _, a := range v4 {
				for _, l := range l4 {
					add(fmt.Sprintf("IPPrefix(%s,%d,%d,%d,%d)", a, l.p, l.m, as, fl), func() RTRMessage {
						return NewRTRIPPrefix(netip.MustParseAddr(a), l.p, l.m, as, fl)
					})
				}
			}
			for _, a := range v6 {
				for _, l := range l6 {
					add(fmt.Sprintf("IPPrefix(%s,%d,%d,%d,%d)", a, l.p, l.m, as, fl), func() RTRMessage {
						return NewRTRIPPrefix(netip.MustParseAddr(a), l.p, l.m, as, fl)
					})
				}
			}
		}
	}
	rq, _ := NewRTRResetQuery().Serialize()
	sn, _ := NewRTRSerialNotify(7, 9).Serialize()
	ip, _ := NewRTRIPPrefix(netip.MustParseAddr("10.0.0.0"), 8, 8, 65000, 1).Serialize()
	pdus := map[string][]byte{"nil": nil, "resetquery": rq, "serialnotify": sn, "ipprefix": ip, "2bytes": {0, 99}}
	texts := map[string][]byte{"nil": nil, "empty": {}, "a": []byte("a"), "utf8": []byte("caché"), "bin": {0, 0xff, 0x80}, "long": bytes.Repeat([]byte("x"), 300)}
	codes := []uint16{CORRUPT_DATA, INTERNAL_ERROR, NO_DATA_AVAILABLE, INVALID_REQUEST, UNSUPPORTED_PROTOCOL_VERSION, UNSUPPORTED_PDU_TYPE, WITHDRAWAL_OF_UNKNOWN_RECORD, DUPLICATE_ANNOUNCEMENT_RECORD, 0xffff}
	for _, code := range codes {
		for _, pn := range []string{"nil", "resetquery", "serialnotify", "ipprefix", "2bytes"} {
			for _, tn := range []string{"nil", "empty", "a", "utf8", "bin", "long"} {
				add(fmt.Sprintf("ErrorReport(%d,%s,%s)", code, pn, tn), func() RTRMessage {
					var p, tx []byte
					if pdus[pn] != nil {
						p = append([]byte{}, pdus[pn]...)
					}
					if texts[tn] != nil {
						tx = append([]byte{}, texts[tn]...)
					}
					return NewRTRErrorReport(code, p, tx)
				})
			}
		}
	}
	return out
}

func c19RoundTrip(r *vr.Report, c c19Msg) {
	r.Eval()
	cs := c19lib.RTCase{Kind: "roundtrip", Name: c.name}
	m := c.mk()
	var b1 []byte
	var err error
	if k, msg := c19lib.Guard(func() { b1, err = m.Serialize() }); k != "" {
		r.Violationf("C19:panic:"+k, cs, "%s: Serialize: %s", c.name, msg)
		return
	}
	if err != nil {
		r.Outcome("roundtrip: not constructible")
		return
	}
	var m2 RTRMessage
	if k, msg := c19lib.Guard(func() { m2, err = ParseRTR(b1) }); k != "" {
		r.Violationf("C19:panic:"+k, cs, "%s: ParseRTR(%x): %s", c.name, b1, msg)
		return
	}
	typ := strings.SplitN(c.name, "(", 2)[0]
	if err != nil {
		r.Violationf("C19:roundtrip:rtr:reparse-error:"+typ, cs, "%s serialises to %x which does not parse: %v", c.name, b1, err)
		return
	}
	if ok, path := c19lib.Equal(m, m2); !ok {
		r.Violationf("C19:roundtrip:rtr:not-equal:"+typ, cs, "%s -> %x -> differs at %s", c.name, b1, path)
		return
	}
	b2, err := m2.Serialize()
	if err != nil || !bytes.Equal(b1, b2) {
		r.Violationf("C19:roundtrip:rtr:reserialise-differs:"+typ, cs, "%s: %x vs %x (%v)", c.name, b1, b2, err)
		return
	}
	r.NT("rt|" + c.name)
	r.Outcome("roundtrip: equal: " + typ)
}

func TestVerif_C19_RTR(t *testing.T) {
	r := vr.Start(t, "C19", "rtr")
	defer r.Finish()
	r.Rule = "decoder: every byte string over the stated alphabet/length at ParseRTR and every DecodeFromBytes receiver; every fault-catalogue mutant (byte x 256 values, truncations, appended byte, every 16/32-bit window x length-fault values; thorough: pairs) and every garbage tail at every cut position of one serialised PDU per type, each executed with cap==len and with 96 poison bytes (00, ff) behind the data; non-trivial = a PDU was returned (then json.Marshal and Serialize were exercised). round trip: every constructor over boundary domains -> Serialize -> ParseRTR -> structurally equal (nil==empty slice) -> identical bytes"
	entries := c19Entries()
	cons := c19Constructible(vr.Thorough())
	if r.ReplayPath() != "" {
		if c19lib.ReplayDecoder(r, entries) {
			return
		}
		var cs c19lib.RTCase
		if err := r.LoadReplay(&cs); err != nil {
			t.Fatal(err)
		}
		for _, c := range cons {
			if c.name == cs.Name {
				c19RoundTrip(r, c)
			}
		}
		return
	}
	stop := c19lib.Watchdog(r, 3*time.Minute)
	defer stop()

	// seeds: one (or a few) serialised PDU per type, fed to ParseRTR and to the matching receiver
	byName := map[string]*c19lib.Entry{}
	for _, e := range entries {
		byName[e.Name] = e
	}
	var seeds []c19lib.Seed
	seed := func(name string, m RTRMessage, recv string) {
		b, err := m.Serialize()
		if err != nil {
			t.Fatal(err)
		}
		seeds = append(seeds, c19lib.Seed{Name: name, Data: b, Entries: []*c19lib.Entry{entries[0], byName[recv]}})
	}
	seed("serialnotify", NewRTRSerialNotify(0x1234, 0x01020304), "rtr.RTRCommon.DecodeFromBytes")
	seed("serialquery", NewRTRSerialQuery(1, 2), "rtr.RTRCommon.DecodeFromBytes")
	seed("resetquery", NewRTRResetQuery(), "rtr.RTRReset.DecodeFromBytes")
	seed("cacheresponse", NewRTRCacheResponse(0xffff), "rtr.RTRCacheResponse.DecodeFromBytes")
	seed("ipv4prefix", NewRTRIPPrefix(netip.MustParseAddr("192.0.2.0"), 24, 32, 65001, ANNOUNCEMENT), "rtr.RTRIPPrefix.DecodeFromBytes")
	seed("ipv6prefix", NewRTRIPPrefix(netip.MustParseAddr("2001:db8::"), 32, 48, 4200000000, WITHDRAWAL), "rtr.RTRIPPrefix.DecodeFromBytes")
	seed("endofdata", NewRTREndOfData(9, 10), "rtr.RTRCommon.DecodeFromBytes")
	seed("cachereset", NewRTRCacheReset(), "rtr.RTRReset.DecodeFromBytes")
	rq, _ := NewRTRResetQuery().Serialize()
	seed("errorreport", NewRTRErrorReport(INVALID_REQUEST, rq, []byte("bad")), "rtr.RTRErrorReport.DecodeFromBytes")
	seed("errorreport-empty", NewRTRErrorReport(CORRUPT_DATA, nil, nil), "rtr.RTRErrorReport.DecodeFromBytes")

	plan := &c19lib.Plan{
		// the DecodeFromBytes receivers are reached through ParseRTR for every type byte; they get the
		// seed catalogue directly, the all-strings enumeration goes to ParseRTR (thorough: to all)
		Entries: entries[:1], StrAlpha: c19lib.FullAlphabet(), StrMaxLen: 3,
		Seeds: seeds, Opt: c19lib.MutOpt{AllByteValues: true, PairStride: 1},
		TailFull: 1, TailBoundary: 2,
	}
	if vr.Thorough() {
		plan.Entries = entries
		plan.StrMaxLen = 3
		plan.Opt.Pairs = true
		plan.TailFull, plan.TailBoundary = 2, 3
	}
	plan.Run(r)
	r.Sample(c19lib.Case{Entry: entries[0].Name, Hex: c19lib.Hex(seeds[4].Data), Note: "seed ipv4prefix"})

	r.Bounds["rt_constructible_messages"] = len(cons)
	W := vr.Workers()
	r.Parallel(W, func(w int, cr *vr.Report) {
		for i, c := range cons {
			if i%W != w {
				continue
			}
			c19RoundTrip(cr, c)
			if cr.WantSample() && i%97 == 0 {
				cr.Sample(c19lib.RTCase{Kind: "roundtrip", Name: c.name})
			}
		}
	})
}
