package server

// Park sites (DESIGN 11.2): the daemon's logger is supplied by the harness, so every log record is a point at
// which the goroutine that emits it can be HELD (a channel receive inside the synctest bubble: durably blocked)
// while the harness does something else, and released afterwards. Shared by C07 parts handover / park and C20
// part park.

import (
	"bytes"
	"context"
	"encoding/binary"
	"log/slog"
	"net"
	"sync"
	"syscall"

	"github.com/osrg/gobgp/v4/pkg/packet/bgp"
)

type simPark struct {
	mu       sync.Mutex
	want     int // record index to park at (-1: none)
	n        int
	frozen   bool // records after the stop was issued are not counted and never park
	reached  chan struct{}
	release  chan struct{}
	records  []string
	parkedAt string
}

func (p *simPark) site(msg string) {
	p.mu.Lock()
	if p.frozen {
		p.mu.Unlock()
		return
	}
	i := p.n
	p.n++
	p.records = append(p.records, msg)
	hit := i == p.want
	if hit {
		p.parkedAt = msg
		p.frozen = true
	}
	p.mu.Unlock()
	if hit {
		close(p.reached)
		<-p.release
	}
}

func (p *simPark) freeze() {
	p.mu.Lock()
	p.frozen = true
	p.mu.Unlock()
}

type simParkAll struct{ p *simPark }

func (h simParkAll) Enabled(context.Context, slog.Level) bool { return true }
func (h simParkAll) WithAttrs([]slog.Attr) slog.Handler       { return h }
func (h simParkAll) WithGroup(string) slog.Handler            { return h }
func (h simParkAll) Handle(_ context.Context, r slog.Record) error {
	h.p.site("log:" + r.Message)
	return nil
}

// simParkConn is the daemon's end of a harness-owned connection: the daemon's Write and Close calls are park
// sites as well (the goroutine is held BEFORE the operation takes effect).
type simParkConn struct {
	*simConn
	h simParkHandler
}

func (c *simParkConn) Write(b []byte) (int, error) {
	kind := "?"
	if len(b) >= 19 {
		kind = map[byte]string{1: "open", 2: "update", 3: "notification", 4: "keepalive", 5: "route-refresh"}[b[18]]
	}
	c.h.at("conn:write:" + kind)
	return c.simConn.Write(b)
}

func (c *simParkConn) Close() error {
	c.h.at("conn:close")
	return c.simConn.Close()
}

var _ syscall.Conn = (*simParkConn)(nil)

// simParkRemote is the remote end of one dialled connection: it accumulates everything the daemon writes.
type simParkRemote struct {
	conn      net.Conn
	mu        sync.Mutex
	buf       bytes.Buffer
	eof       bool
	selfClose bool
	acted     bool
	sentNotif bool // the remote itself has sent a NOTIFICATION on it: the session is over by the remote's doing
	q         chan []byte // writes go through one goroutine: two blocked net.Pipe writers would contend on a mutex
}

func (r *simParkRemote) write(b []byte) {
	r.mu.Lock()
	if len(b) >= 19 && b[18] == bgp.BGP_MSG_NOTIFICATION {
		r.sentNotif = true
	}
	if r.q == nil {
		r.q = make(chan []byte, 16)
		q := r.q
		go func() {
			for b := range q {
				if _, err := r.conn.Write(b); err != nil {
					for range q {
					}
					return
				}
			}
		}()
	}
	q := r.q
	r.mu.Unlock()
	q <- b
}

func (r *simParkRemote) shut() {
	r.mu.Lock()
	if r.q != nil {
		close(r.q)
		r.q = nil
	}
	r.mu.Unlock()
	r.conn.Close()
}

func (r *simParkRemote) reader() {
	b := make([]byte, 4096)
	for {
		n, err := r.conn.Read(b)
		r.mu.Lock()
		r.buf.Write(b[:n])
		if err != nil {
			r.eof = true
			r.mu.Unlock()
			return
		}
		r.mu.Unlock()
	}
}

func (r *simParkRemote) closed() bool {
	r.mu.Lock()
	defer r.mu.Unlock()
	return r.eof
}

// messages splits what the daemon wrote into BGP message types (0xff: trailing garbage / partial message).
func (r *simParkRemote) messages() (types []uint8, notif [][2]uint8) {
	r.mu.Lock()
	b := append([]byte(nil), r.buf.Bytes()...)
	r.mu.Unlock()
	for len(b) > 0 {
		if len(b) < 19 {
			return append(types, 0xff), notif
		}
		l := int(binary.BigEndian.Uint16(b[16:18]))
		if l < 19 || l > len(b) {
			return append(types, 0xff), notif
		}
		types = append(types, b[18])
		if b[18] == bgp.BGP_MSG_NOTIFICATION && l >= 21 {
			notif = append(notif, [2]uint8{b[19], b[20]})
		}
		b = b[l:]
	}
	return types, notif
}

type simParkHandler struct {
	p     *simPark
	armed *bool
	mu    *sync.Mutex
	locks func() bool // true: a lock the perturbation may need is taken right now
	skip  *int
}

func (h simParkHandler) Enabled(context.Context, slog.Level) bool { return true }
func (h simParkHandler) WithAttrs([]slog.Attr) slog.Handler       { return h }
func (h simParkHandler) WithGroup(string) slog.Handler            { return h }
func (h simParkHandler) Handle(_ context.Context, r slog.Record) error {
	h.at("log:" + r.Message)
	return nil
}

// at is a park site: a log record, or an operation of the daemon on a connection the harness owns.
func (h simParkHandler) at(name string) {
	h.mu.Lock()
	armed := *h.armed
	h.mu.Unlock()
	if !armed {
		return
	}
	h.p.mu.Lock()
	next := h.p.n == h.p.want && !h.p.frozen
	h.p.mu.Unlock()
	if next && h.locks() {
		h.mu.Lock()
		*h.skip++
		h.mu.Unlock()
		h.p.mu.Lock()
		h.p.want = -2 // this occurrence cannot be held; the case degenerates to "nobody held"
		h.p.mu.Unlock()
	}
	h.p.site(name)
}

