package server

// C08 part "unit" — the negotiation functions called directly, over spaces too large for whole sessions:
//   open2cap:    every capability sequence over a 17-symbol alphabet up to length k (duplicates, unknown
//                codes, ADD-PATH tuples for families without MP, conflicting tuples, a family nobody
//                configured), in both optional-parameter packings, x all 24 local family/ADD-PATH
//                configurations: bytes -> real bgp.ParseBGPMessage -> real open2Cap, against refnegotiate.
//   buildopen:   every local configuration x hold x AS x router-id: real SetDefaultNeighborConfigValues ->
//                buildopen / capabilitiesFromConfig / capAddPathFromConfig -> bytes, against ExpectOpen.
//   statechange: real ValidateOpenMsg, then newFSM + stateChange(OPENCONFIRM) + stateChange(ESTABLISHED)
//                over a wide grid of timers, AS forms and capabilities, against refnegotiate.

import (
	"fmt"
	"io"
	"log/slog"
	"net/netip"
	"sort"
	"testing"

	rn "github.com/osrg/gobgp/v4/internal/verif/refnegotiate"
	"github.com/osrg/gobgp/v4/internal/verif/vr"
	"github.com/osrg/gobgp/v4/pkg/config/oc"
	"github.com/osrg/gobgp/v4/pkg/packet/bgp"
)

var c08VPNv4 = rn.Family{AFI: 1, SAFI: 128}

type c08Sym struct {
	Name string
	Cap  rn.Cap
}

func c08Alphabet() []c08Sym {
	t := func(f rn.Family, m uint8) rn.APTuple { return rn.APTuple{F: f, Mode: m} }
	return []c08Sym{
		{"MP(v4)", c08MPCap(rn.V4)},
		{"MP(v6)", c08MPCap(rn.V6)},
		{"MP(vpnv4)", c08MPCap(c08VPNv4)},
		{"AP[v4:R]", c08APCap(t(rn.V4, rn.APReceive))},
		{"AP[v4:S]", c08APCap(t(rn.V4, rn.APSend))},
		{"AP[v4:B]", c08APCap(t(rn.V4, rn.APBoth))},
		{"AP[v6:R]", c08APCap(t(rn.V6, rn.APReceive))},
		{"AP[v6:S]", c08APCap(t(rn.V6, rn.APSend))},
		{"AP[v6:B]", c08APCap(t(rn.V6, rn.APBoth))},
		{"AP[v4:R,v4:S]", c08APCap(t(rn.V4, rn.APReceive), t(rn.V4, rn.APSend))},
		{"AP[v4:S,v4:R]", c08APCap(t(rn.V4, rn.APSend), t(rn.V4, rn.APReceive))},
		{"AP[v4:B,v6:B]", c08APCap(t(rn.V4, rn.APBoth), t(rn.V6, rn.APBoth))},
		{"AP[vpnv4:B]", c08APCap(t(c08VPNv4, rn.APBoth))},
		{"RR", rn.Cap{Code: rn.CapRouteRefresh}},
		{"AS4(65001)", rn.Cap{Code: rn.CapFourOctetAS, Value: c08U32(c08RemoteAS2)}},
		{"EXT", rn.Cap{Code: rn.CapExtMessage}},
		{"UNKNOWN(200)", c08UnknownCap},
	}
}

type c08UnitLocal struct {
	L    c08Local
	Conf oc.Neighbor
	Ref  rn.Local
}

func c08Global(as uint32, id [4]byte) *oc.Global {
	return &oc.Global{Config: oc.GlobalConfig{As: as, RouterId: netip.AddrFrom4(id), Port: -1}}
}

// c08NeighborConf builds the neighbour configuration the way the daemon does for AddPeer: configuration
// keys set by the case, everything else by SetDefaultNeighborConfigValues.
func c08NeighborConf(l c08Local, g *oc.Global, remoteRealAS uint32) (oc.Neighbor, error) {
	n := oc.Neighbor{Config: oc.NeighborConfig{NeighborAddress: netip.AddrFrom4(c08BotIP), PeerAs: remoteRealAS},
		Transport: oc.Transport{Config: oc.TransportConfig{PassiveMode: true}}}
	c08ApplyLocal(&n, l, remoteRealAS)
	err := oc.SetDefaultNeighborConfigValues(&n, nil, g)
	return n, err
}

type c08SeqCase struct {
	Local c08Local `json:"local"`
	Seq   []int    `json:"seq"` // indices into the alphabet
	Split bool     `json:"split"`
}

func c08SeqNames(alpha []c08Sym, seq []int) []string {
	var s []string
	for _, i := range seq {
		s = append(s, alpha[i].Name)
	}
	return s
}

// c08CheckOpen2Cap runs one (sequence, packing) against every given local configuration.
func c08CheckOpen2Cap(r *vr.Report, alpha []c08Sym, locals []c08UnitLocal, seq []int, split bool, stub *rn.Open) {
	var caps []rn.Cap
	for _, i := range seq {
		caps = append(caps, alpha[i].Cap)
	}
	raw := c08OpenBytes(c08RemoteAS2, 90, c08RemoteID, caps, split)
	recv, err := rn.ParseOpen(raw)
	if err != nil {
		panic("c08: own OPEN does not parse: " + err.Error())
	}
	m, perr := bgp.ParseBGPMessage(raw)
	if perr != nil {
		r.Eval()
		r.Violationf("C08:unit:open-rejected-by-parser", c08SeqCase{Seq: seq, Split: split}, "a well-formed OPEN with capabilities %v (one optional parameter per capability: %v) is rejected by the parser: %v [% x]", c08SeqNames(alpha, seq), split, perr, raw)
		return
	}
	body := m.Body.(*bgp.BGPOpen)
	for li := range locals {
		ul := &locals[li]
		r.Eval()
		res := rn.Negotiate(ul.Ref, stub, recv)
		var capMap map[bgp.BGPCapabilityCode][]bgp.ParameterCapabilityInterface
		var fmap map[bgp.Family]bgp.BGPAddPathMode
		func() {
			defer func() {
				if p := recover(); p != nil {
					r.Violationf("C08:unit:open2cap-panic", c08SeqCase{ul.L, seq, split}, "open2Cap panics on capabilities %v: %v", c08SeqNames(alpha, seq), p)
				}
			}()
			conf := ul.Conf // open2Cap only reads it
			capMap, fmap = open2Cap(body, &conf)
		}()
		if fmap == nil {
			continue
		}
		cs := c08SeqCase{ul.L, seq, split}
		var got, want []string
		for f := range fmap {
			got = append(got, f.String())
		}
		for _, f := range res.Families {
			want = append(want, f.String())
		}
		sort.Strings(got)
		sort.Strings(want)
		if fmt.Sprint(got) != fmt.Sprint(want) {
			r.Violationf("C08:families", cs, "local families %v, remote capabilities %v: open2Cap negotiates %v, both sides announced exactly %v", ul.Ref.Families, c08SeqNames(alpha, seq), got, want)
			continue
		}
		nontrivial := false
		for _, f := range res.Families {
			mode := uint8(fmap[bgp.NewFamily(f.AFI, f.SAFI)])
			ok := false
			for _, a := range res.AddPath[f] {
				if a == mode {
					ok = true
				}
			}
			what := res.AddPathWhat[f]
			if what != "none" {
				nontrivial = true
			}
			if what == "conflict" {
				r.Outcome(fmt.Sprintf("open2cap:conflict-chosen=%s", c08Which(ul.Ref.AddPath[f], recv, f, mode)))
			}
			if !ok {
				r.Violationf("C08:addpath-mode:"+what, cs, "local ADD-PATH mode %d for %s, remote capabilities %v: open2Cap negotiates mode %d, acceptable %v", ul.Ref.AddPath[f], f, c08SeqNames(alpha, seq), mode, res.AddPath[f])
			}
		}
		r.Outcome(fmt.Sprintf("open2cap:families=%d", len(res.Families)))
		// capMap: one entry per capability code the remote announced (+ the implied MP)
		var codes []uint8
		for c := range capMap {
			codes = append(codes, uint8(c))
		}
		sort.Slice(codes, func(i, j int) bool { return codes[i] < codes[j] })
		wantCodes := append([]uint8{}, res.RemoteCodes...)
		if !recv.Has(rn.CapMultiProtocol) {
			wantCodes = append([]uint8{rn.CapMultiProtocol}, wantCodes...)
			r.Outcome("open2cap:no-mp-capability")
		}
		if fmt.Sprint(codes) != fmt.Sprint(wantCodes) {
			r.Violationf("C08:capmap-codes", cs, "capMap holds codes %v, the OPEN carried %v", codes, wantCodes)
		}
		if nontrivial || len(res.Families) > 0 {
			r.NT(fmt.Sprintf("o2c|%v|%v|%v", ul.L, seq, split))
		}
	}
}

// c08Which names which reading of conflicting tuples yields the chosen mode.
func c08Which(local uint8, recv *rn.Open, f rn.Family, chosen uint8) string {
	var modes []uint8
	for _, t := range recv.AddPathTuples() {
		if t.F == f {
			modes = append(modes, t.Mode)
		}
	}
	neg := func(l, m uint8) uint8 {
		var n uint8
		if l&rn.APSend != 0 && m&rn.APReceive != 0 {
			n |= rn.APSend
		}
		if l&rn.APReceive != 0 && m&rn.APSend != 0 {
			n |= rn.APReceive
		}
		return n
	}
	var union uint8
	for _, m := range modes {
		union |= m
	}
	s := ""
	if neg(local, modes[0]) == chosen {
		s += "first"
	}
	if neg(local, modes[len(modes)-1]) == chosen {
		s += "+last"
	}
	if neg(local, union) == chosen {
		s += "+union"
	}
	if s == "" {
		s = "none"
	}
	return s
}

func c08UnitLocals() []c08UnitLocal {
	var locals []c08UnitLocal
	g := c08Global(65000, c08ServerID)
	for _, fa := range c08FamAP() {
		l := c08Local{Fams: fa[0], AP4: fa[1], AP6: fa[2], Hold: 90, AS: 65000, PeerAs: true}
		conf, err := c08NeighborConf(l, g, c08RemoteAS2)
		if err != nil {
			panic(err)
		}
		locals = append(locals, c08UnitLocal{l, conf, c08RefLocal(l, c08RemoteAS2)})
	}
	return locals
}

func c08UnitOpen2Cap(t *testing.T, r *vr.Report, maxLen int) {
	alpha := c08Alphabet()
	locals := c08UnitLocals()
	stub := &rn.Open{Caps: []rn.Cap{{Code: rn.CapFourOctetAS}, {Code: rn.CapExtMessage}}}
	r.Bounds["open2cap.alphabet"] = func() []string {
		var s []string
		for _, a := range alpha {
			s = append(s, a.Name)
		}
		return s
	}()
	r.Bounds["open2cap.max_sequence_length"] = maxLen
	r.Bounds["open2cap.local_configurations"] = len(locals)
	r.Bounds["open2cap.packings"] = 2
	W := vr.Workers()
	total := 0
	r.Parallel(W, func(w int, c *vr.Report) {
		n := 0
		// shortest sequences first, so that the recorded instance of a violation class is a short one
		for length := 0; length <= maxLen; length++ {
			var rec func(seq []int)
			rec = func(seq []int) {
				if len(seq) < length {
					for i := range alpha {
						rec(append(seq[:len(seq):len(seq)], i))
					}
					return
				}
				n++
				if n%W != w {
					return
				}
				c08CheckOpen2Cap(c, alpha, locals, seq, false, stub)
				if len(seq) >= 2 {
					c08CheckOpen2Cap(c, alpha, locals, seq, true, stub)
				}
				if c.WantSample() && n%7919 == 0 {
					c.Sample(map[string]any{"part": "open2cap", "capabilities": c08SeqNames(alpha, seq)})
				}
			}
			rec(nil)
		}
		if w == 0 {
			total = n
		}
	})
	r.Bounds["open2cap.sequences"] = total
}

// ---------------------------------------------------------------------------------------------

type c08BuildCase struct {
	Local    c08Local `json:"local"`
	RouterID [4]byte  `json:"router_id"`
}

func c08CheckBuildOpen(r *vr.Report, bc c08BuildCase) {
	r.Eval()
	g := c08Global(bc.Local.AS, bc.RouterID)
	conf, err := c08NeighborConf(bc.Local, g, c08RemoteAS2)
	if err != nil {
		r.Outcome("buildopen:config-refused")
		return
	}
	L := c08RefLocal(bc.Local, c08RemoteAS2)
	L.RouterID = bc.RouterID
	var raw []byte
	var nCaps int
	var apTuples int
	func() {
		defer func() {
			if p := recover(); p != nil {
				r.Violationf("C08:unit:buildopen-panic", bc, "buildopen panics: %v", p)
			}
		}()
		m := buildopen(g, &conf)
		raw, err = m.Serialize()
		nCaps = len(capabilitiesFromConfig(&conf))
		if c := capAddPathFromConfig(&conf); c != nil {
			apTuples = len(c.(*bgp.CapAddPath).Tuples)
		}
	}()
	if raw == nil {
		if err != nil {
			r.Violationf("C08:unit:buildopen-unserialisable", bc, "the OPEN built from the configuration cannot be serialised: %v", err)
		}
		return
	}
	sent, perr := rn.ParseOpen(raw)
	if perr != nil {
		r.Violationf("C08:unit:buildopen-malformed", bc, "the OPEN built from the configuration does not parse: %v [% x]", perr, raw)
		return
	}
	for _, d := range rn.ExpectOpen(L, sent) {
		r.Violationf("C08:sent-open:"+d[0], bc, "local{fams=%d ap4=%d ap6=%d hold=%d as=%d}: OPEN [% x]: %s", bc.Local.Fams, bc.Local.AP4, bc.Local.AP6, bc.Local.Hold, bc.Local.AS, raw, d[1])
	}
	if nCaps != len(sent.Caps) {
		r.Violationf("C08:unit:capabilities-from-config-count", bc, "capabilitiesFromConfig returns %d capabilities, the OPEN carries %d", nCaps, len(sent.Caps))
	}
	wantTuples := 0
	for _, m := range L.AddPath {
		if m != 0 {
			wantTuples++
		}
	}
	if apTuples != wantTuples {
		r.Violationf("C08:unit:cap-addpath-from-config", bc, "capAddPathFromConfig returns %d tuples, %d families have an ADD-PATH mode configured", apTuples, wantTuples)
	}
	r.Outcome(fmt.Sprintf("buildopen:my-as-is-as-trans=%v", sent.MyAS == rn.ASTrans))
	r.Outcome(fmt.Sprintf("buildopen:addpath-tuples=%d", wantTuples))
	r.NT(fmt.Sprintf("bo|%v", bc))
	// the same neighbour under a DIFFERENT global AS: its configuration then carries a per-neighbour local-as
	// (conf.Config.LocalAs stays what it is), and that - not the global AS - is what the OPEN announces, in the
	// My-AS field and in the 4-octet capability alike
	for _, other := range []uint32{64999, 4200009999} {
		if other == bc.Local.AS {
			continue
		}
		g2 := c08Global(other, bc.RouterID)
		var raw2 []byte
		func() {
			defer func() {
				if p := recover(); p != nil {
					r.Violationf("C08:unit:buildopen-panic:local-as-override", bc, "buildopen panics: %v", p)
				}
			}()
			raw2, _ = buildopen(g2, &conf).Serialize()
		}()
		if raw2 == nil {
			continue
		}
		sent2, perr := rn.ParseOpen(raw2)
		if perr != nil {
			r.Violationf("C08:unit:buildopen-malformed:local-as-override", bc, "global AS %d, neighbour local-as %d: the OPEN does not parse: %v", other, bc.Local.AS, perr)
			continue
		}
		for _, d := range rn.ExpectOpen(L, sent2) {
			r.Violationf("C08:sent-open:local-as-override:"+d[0], bc, "global AS %d, neighbour local-as %d: OPEN [% x]: %s", other, bc.Local.AS, raw2, d[1])
		}
		r.Outcome("buildopen:local-as-override-checked")
	}
}

var (
	c08BuildASs   = []uint32{1, 23456, 65000, 65535, 65536, 4200000000, 4294967295}
	c08BuildHolds = []int{3, 9, 90, 65535}
)

func c08UnitBuildOpen(r *vr.Report) {
	r.Bounds["buildopen.local_as"] = c08BuildASs
	r.Bounds["buildopen.hold"] = c08BuildHolds
	r.Bounds["buildopen.family_addpath_configurations"] = len(c08FamAP())
	for _, fa := range c08FamAP() {
		for _, hold := range c08BuildHolds {
			for _, as := range c08BuildASs {
				for _, id := range [][4]byte{c08ServerID, {255, 255, 255, 254}} {
					bc := c08BuildCase{c08Local{Fams: fa[0], AP4: fa[1], AP6: fa[2], Hold: hold, AS: as, PeerAs: true}, id}
					c08CheckBuildOpen(r, bc)
					if r.WantSample() && as == 65536 && hold == 9 && fa[1] == 3 {
						r.Sample(map[string]any{"part": "buildopen", "case": bc})
					}
				}
			}
		}
	}
}

// ---------------------------------------------------------------------------------------------

type c08StateCase struct {
	Local     c08Local  `json:"local"`
	Remote    c08Remote `json:"remote"`
	WrongPeer bool      `json:"wrong_peer_as,omitempty"` // peer-as configured to an AS the remote speaker does not have
}

var c08Discard = slog.New(slog.NewTextHandler(io.Discard, nil))

func c08CheckStateChange(r *vr.Report, sc c08StateCase) {
	r.Eval()
	myAS, cap4, realAS := c08RemoteASOf(sc.Remote.ASForm, sc.Local.AS)
	cfgPeer := realAS
	if sc.WrongPeer {
		cfgPeer = 65009
	}
	g := c08Global(sc.Local.AS, c08ServerID)
	conf, err := c08NeighborConf(sc.Local, g, cfgPeer)
	if err != nil {
		r.Outcome("statechange:config-refused")
		return
	}
	L := c08RefLocal(sc.Local, cfgPeer)
	raw := c08OpenBytes(myAS, uint16(sc.Remote.Hold), c08RemoteID, c08RemoteCaps(sc.Remote, cap4), false)
	recv, err := rn.ParseOpen(raw)
	if err != nil {
		panic(err)
	}
	m, perr := bgp.ParseBGPMessage(raw)
	if perr != nil {
		r.Violationf("C08:unit:open-rejected-by-parser", sc, "a well-formed OPEN is rejected by the parser: %v [% x]", perr, raw)
		return
	}
	var fsm *fsm
	var sentRaw []byte
	var verr error
	panicked := false
	func() {
		defer func() {
			if p := recover(); p != nil {
				panicked = true
				r.Violationf("C08:unit:statechange-panic", sc, "panic: %v", p)
			}
		}()
		c := conf
		fsm = newFSM(g, &c, bgp.BGP_FSM_OPENSENT, c08Discard)
		pc := fsm.pConf.ReadCopy()
		sentRaw, _ = buildopen(g, &pc).Serialize()
		fsm.pConf.Update(&pc)
		_, verr = bgp.ValidateOpenMsg(m.Body.(*bgp.BGPOpen), pc.Config.PeerAs, pc.Config.LocalAs, g.Config.RouterId)
	}()
	if fsm != nil {
		defer fsm.outgoingCh.Close()
	}
	if panicked {
		return
	}
	sent, err := rn.ParseOpen(sentRaw)
	if err != nil {
		r.Violationf("C08:unit:buildopen-malformed", sc, "the OPEN built from the configuration does not parse: %v", err)
		return
	}
	res := rn.Negotiate(L, sent, recv)
	if res.Refused {
		r.Outcome(fmt.Sprintf("statechange:refused-%d/%d", res.NotifCode, res.NotifSub))
		me, _ := verr.(*bgp.MessageError)
		if me == nil || me.TypeCode != res.NotifCode || me.SubTypeCode != res.NotifSub {
			r.Violationf(fmt.Sprintf("C08:refusal-messages:want=%d/%d", res.NotifCode, res.NotifSub), sc, "OPEN {hold %d, AS %d, peer-as configured %d} must be refused with %d/%d; ValidateOpenMsg returns %v", sc.Remote.Hold, realAS, L.PeerAS, res.NotifCode, res.NotifSub, verr)
		}
		r.NT(fmt.Sprintf("sc|%v", sc))
		return
	}
	if verr != nil {
		r.Violationf("C08:unit:acceptable-open-refused", sc, "OPEN {hold %d, AS %d, peer-as configured %d} is acceptable; ValidateOpenMsg returns %v", sc.Remote.Hold, realAS, L.PeerAS, verr)
		return
	}
	srv, bot := simPipe([4]byte{10, 0, 0, 254}, c08BotIP, 179, 40000)
	defer srv.Close()
	defer bot.Close()
	var ocHold, ocKA float64
	func() {
		defer func() {
			if p := recover(); p != nil {
				panicked = true
				r.Violationf("C08:unit:statechange-panic", sc, "panic: %v", p)
			}
		}()
		fsm.conn = srv
		fsm.lock.Lock()
		fsm.recvOpen = m
		fsm.lock.Unlock()
		fsm.stateChange(bgp.BGP_FSM_OPENCONFIRM, newfsmStateReason(fsmOpenMsgReceived, nil, nil))
		c := fsm.pConf.ReadOnly()
		ocHold, ocKA = c.Timers.State.NegotiatedHoldTime, c.Timers.State.KeepaliveInterval
		fsm.stateChange(bgp.BGP_FSM_ESTABLISHED, newfsmStateReason(fsmOpenMsgNegotiated, nil, nil))
	}()
	if panicked {
		return
	}
	c := fsm.pConf.ReadOnly()
	timers := fmt.Sprintf("local hold %d keepalive %d, remote hold %d", L.Hold, L.Keepalive, recv.Hold)
	if c.Timers.State.NegotiatedHoldTime != float64(res.Hold) {
		r.Violationf("C08:negotiated-hold", sc, "%s: negotiated hold time %v, want %d", timers, c.Timers.State.NegotiatedHoldTime, res.Hold)
	}
	if ocHold != c.Timers.State.NegotiatedHoldTime || ocKA != c.Timers.State.KeepaliveInterval {
		r.Violationf("C08:unit:openconfirm-timers-differ", sc, "%s: timers negotiated on entering OpenConfirm (%v/%v) differ from those in Established (%v/%v)", timers, ocHold, ocKA, c.Timers.State.NegotiatedHoldTime, c.Timers.State.KeepaliveInterval)
	}
	if res.Hold != 0 {
		ka := c.Timers.State.KeepaliveInterval
		lo := float64(int(res.KeepaliveSec))
		if ka > res.KeepaliveSec+1e-9 || ka < lo-1e-9 {
			r.Violationf(fmt.Sprintf("C08:keepalive-interval-state:configured-applies=%v", res.KeepaliveCfg), sc, "%s: keepalive interval %v, want %v", timers, ka, res.KeepaliveSec)
		}
	}
	r.Outcome(fmt.Sprintf("statechange:hold=%s/keepalive-configured=%v", map[bool]string{true: "0", false: ">0"}[res.Hold == 0], res.KeepaliveCfg))
	wantType := oc.PEER_TYPE_EXTERNAL
	if res.Internal {
		wantType = oc.PEER_TYPE_INTERNAL
	}
	r.Outcome(fmt.Sprintf("statechange:internal=%v/peer-as-configured=%v", res.Internal, sc.Local.PeerAs))
	if c.State.PeerType != wantType {
		r.Violationf(fmt.Sprintf("C08:peer-type:peer-as-configured=%v", sc.Local.PeerAs), sc, "peer type %q; real remote AS %d, local AS %d: want %q", c.State.PeerType, res.RemoteAS, L.AS, wantType)
	}
	if c.State.PeerAs != res.RemoteAS {
		r.Violationf("C08:peer-as", sc, "State.PeerAs=%d, real remote AS %d (My-AS %d, capability %v)", c.State.PeerAs, res.RemoteAS, myAS, cap4 != nil)
	}
	if fsm.isEBGP != !res.Internal {
		r.Violationf(fmt.Sprintf("C08:fsm-isebgp:peer-as-configured=%v", sc.Local.PeerAs), sc, "fsm.isEBGP=%v; real remote AS %d, local AS %d", fsm.isEBGP, res.RemoteAS, L.AS)
	}
	if fsm.twoByteAsTrans != !res.FourOctet {
		r.Violationf("C08:four-octet-flag", sc, "fsm.twoByteAsTrans=%v; remote announced the 4-octet capability: %v", fsm.twoByteAsTrans, recv.Has(rn.CapFourOctetAS))
	}
	if fsm.extendedMessage.Load() != res.ExtMsg {
		r.Violationf("C08:extended-message-flag", sc, "fsm.extendedMessage=%v; remote announced the capability: %v", fsm.extendedMessage.Load(), recv.Has(rn.CapExtMessage))
	}
	r.Outcome(fmt.Sprintf("statechange:four-octet=%v/ext=%v", res.FourOctet, res.ExtMsg))
	fmap := fsm.familyMap.Load().(map[bgp.Family]bgp.BGPAddPathMode)
	var got, want []string
	for f, m := range fmap {
		got = append(got, fmt.Sprintf("%s:%d", f, m))
	}
	for _, f := range res.Families {
		mode := uint8(fmap[bgp.NewFamily(f.AFI, f.SAFI)])
		ok := false
		for _, a := range res.AddPath[f] {
			if a == mode {
				ok = true
			}
		}
		if !ok {
			mode = res.AddPath[f][0]
		}
		want = append(want, fmt.Sprintf("%s:%d", f, mode))
	}
	sort.Strings(got)
	sort.Strings(want)
	if fmt.Sprint(got) != fmt.Sprint(want) {
		r.Violationf("C08:families-or-addpath-mode-after-statechange", sc, "familyMap %v, want %v", got, want)
	}
	r.NT(fmt.Sprintf("sc|%v", sc))
}

var (
	c08StateLocalHolds  = []int{3, 4, 9, 10, 30, 90, 180, 65535}
	c08StateLocalKAs    = []int{0, 1, 3, 30, 60}
	c08StateRemoteHolds = []int{0, 1, 2, 3, 4, 5, 6, 8, 9, 10, 11, 29, 30, 31, 89, 90, 91, 179, 180, 181, 65534, 65535}
)

func c08UnitStateChange(r *vr.Report) {
	r.Bounds["statechange.local_hold"] = c08StateLocalHolds
	r.Bounds["statechange.local_keepalive(0=default)"] = c08StateLocalKAs
	r.Bounds["statechange.remote_hold"] = c08StateRemoteHolds
	r.Bounds["statechange.grid_1"] = "local hold x local keepalive x remote hold x local AS x remote AS form x peer-as {configured, learnt}"
	r.Bounds["statechange.grid_2"] = "24 family/ADD-PATH configurations x remote MP x remote ADD-PATH x ext x unknown x peer-as {configured, learnt, configured wrongly}"
	// grid 1: timers and AS handling
	for _, lh := range c08StateLocalHolds {
		for _, ka := range c08StateLocalKAs {
			for _, rh := range c08StateRemoteHolds {
				for _, las := range c08LocalASs {
					for form := range c08ASFormNames {
						for _, pa := range []bool{true, false} {
							sc := c08StateCase{Local: c08Local{Fams: 1, Hold: lh, KA: ka, AS: las, PeerAs: pa}, Remote: c08Remote{Hold: rh, ASForm: form, MP: 1, Ext: form%2 == 0}}
							c08CheckStateChange(r, sc)
							if r.WantSample() && lh == 90 && rh == 10 && form == 1 && ka == 0 {
								r.Sample(map[string]any{"part": "statechange", "case": sc})
							}
						}
					}
				}
			}
		}
	}
	// grid 2: capabilities
	for _, fa := range c08FamAP() {
		for mp := range c08MPNames {
			for ap := range c08APNames {
				for _, ext := range []bool{false, true} {
					for _, unk := range []bool{false, true} {
						for mode := 0; mode < 3; mode++ {
							sc := c08StateCase{Local: c08Local{Fams: fa[0], AP4: fa[1], AP6: fa[2], Hold: 90, AS: 65000, PeerAs: mode != 1},
								Remote: c08Remote{Hold: 30, ASForm: (mp + ap) % 3, MP: mp, AP: ap, Ext: ext, Unk: unk}, WrongPeer: mode == 2}
							c08CheckStateChange(r, sc)
						}
					}
				}
			}
		}
	}
}

// ---------------------------------------------------------------------------------------------

func TestVerif_C08_Unit(t *testing.T) {
	r := vr.Start(t, "C08", "unit")
	defer r.Finish()
	r.Rule = "open2cap: all capability sequences over the alphabet up to the length bound x 2 optional-parameter packings x 24 local family/ADD-PATH configurations (bytes -> real parser -> real open2Cap); buildopen: all local configurations x hold x AS x router-id through the real SetDefaultNeighborConfigValues/buildopen/capabilitiesFromConfig; statechange: two full grids through the real ValidateOpenMsg, newFSM and stateChange(OPENCONFIRM, ESTABLISHED); each compared with refnegotiate. non-trivial = distinct case in which a family was negotiated (open2cap), an OPEN was produced (buildopen), the OPEN was refused as demanded or all negotiated fields were compared (statechange)"
	r.Assumptions = append(r.Assumptions, "conflicting ADD-PATH tuples for one family: first, last or union accepted (RFC 7911 is silent); the choice made is recorded in the outcomes",
		"keepalive interval: anything between floor(exact) and the exact value is accepted")
	if r.ReplayPath() != "" {
		var raw map[string]any
		if err := r.LoadReplay(&raw); err != nil {
			t.Fatal(err)
		}
		_, isSeq := raw["split"]
		_, isBuild := raw["router_id"]
		switch {
		case isSeq:
			var c c08SeqCase
			_ = r.LoadReplay(&c)
			var locals []c08UnitLocal
			for _, ul := range c08UnitLocals() {
				if ul.L == c.Local || c.Local.Fams == 0 {
					locals = append(locals, ul)
				}
			}
			c08CheckOpen2Cap(r, c08Alphabet(), locals, c.Seq, c.Split, &rn.Open{Caps: []rn.Cap{{Code: rn.CapFourOctetAS}, {Code: rn.CapExtMessage}}})
		case isBuild:
			var c c08BuildCase
			_ = r.LoadReplay(&c)
			c08CheckBuildOpen(r, c)
		default:
			var c c08StateCase
			_ = r.LoadReplay(&c)
			c08CheckStateChange(r, c)
		}
		return
	}
	maxLen := 4
	if vr.Thorough() {
		maxLen = 5
	}
	c08UnitOpen2Cap(t, r, maxLen)
	c08UnitBuildOpen(r)
	c08UnitStateChange(r)
}
