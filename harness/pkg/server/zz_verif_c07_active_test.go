package server

// C07 part "active" — an ACTIVE peer (the daemon dials out) and connection collision.
//
// Scenario "fsmact": one non-passive neighbour. The daemon's outbound dial goes through the build-time
// "dial" seam (see /verif/check SEAMS): the harness decides when a dial completes, is refused or is
// left to time out; the connect-retry jitter is fixed at its maximum (factor 1.0). The remote speaker
// therefore has up to two connections with the daemon: "in" (it connected to the daemon) and "out"
// (the daemon connected to it), and can play every message of the alphabet on either.
//
// Reference: RFC 4271 section 8 with ONE FSM PER CONNECTION, joined by the collision rule of section 6.8
// (+ RFC 4486 subcode 7). Where the RFCs leave the implementation a choice the reference accepts every
// permitted behaviour and follows the one the daemon took (marked "permitted" below):
//   * a second connection arriving while another one is in OpenSent/OpenConfirm may be tracked (OPEN
//     sent on it) or refused at once (closed without a message);
//   * with no connection left the reported state may be Idle or Active;
//   * when the daemon dials again is only bounded (within idle-hold + connect-retry + dial timeout).
// Strict obligations:
//   S1 Established only on a connection on which the remote sent a valid OPEN and then a KEEPALIVE;
//   S2 a valid OPEN on one connection while the other is in OpenConfirm resolves the collision at once:
//      the connection initiated by the speaker with the higher BGP Identifier survives, the other one
//      gets NOTIFICATION Cease/7 and is closed; a valid OPEN on a second connection while the first is
//      Established gets Cease/7 and is closed, the Established one is untouched;
//   S3 a new inbound connection while a session is Established is closed;
//   S4 every message on either connection gets the per-connection reaction of the RFC (OPEN errors 2/x,
//      FSM errors 5/x, hold timer 4/0, keepalives every negotiated interval);
//   S5 the reported session state is the state of one of the open connections (Established if any is);
//   S6 administrative disable closes every connection (Cease/2 on those past Active) and stops dialling;
//      enabled and without any connection, the daemon dials again within the bound.

import (
	"context"
	"errors"
	"fmt"
	"net"
	"net/netip"
	"sort"
	"strings"
	"testing"
	"time"

	api "github.com/osrg/gobgp/v4/api"
	"github.com/osrg/gobgp/v4/internal/verif/vr"
	"github.com/osrg/gobgp/v4/pkg/config/oc"
	"github.com/osrg/gobgp/v4/pkg/packet/bgp"
)

const (
	c07aRetry = 6 // connect-retry (s); the dial timeout derived from it is 5 s
)

type c07aDialReq struct {
	ans      chan c07aDialAns
	at       time.Duration
	finished bool // answered, cancelled or timed out
}

type c07aDialAns struct {
	conn net.Conn
	err  error
}

type c07aConn struct {
	St      string        // "", opensent, openconfirm, established (reference FSM of this connection)
	Hold    time.Duration // remaining hold time (0 = not running)
	KA      time.Duration // remaining time to the daemon's next KEEPALIVE (0 = not running)
	seq     int           // messages already judged
	exp     []string
	closed  bool // expected to be closed by the daemon in this step
	touched bool
}

type c07aScenario struct {
	botHi     bool // the remote speaker dominates the collision (higher BGP Identifier, or equal identifier and larger AS)
	sameID    bool
	in, out   *simBot
	c         map[string]*c07aConn // "in", "out"
	AdminDown bool
	Deleted   bool
	Routes    int
	pruned    bool
	// dial seam
	pending    *c07aDialReq
	dials      int // dial attempts so far
	dialsAt    int // value of dials at the start of the last event
	lastDialAt time.Duration
	lastEndAt  time.Duration
	connVerdict *simViolation
	connNote    string
	openOn      string // a valid OPEN was sent on this connection while the other one was in OpenSent: judged after settling
	judged      bool   // the per-connection expectations of this event were replaced by a judgement made in Apply
	noConnAt0   bool   // no connection at all when the event started
}

func init() {
	simScenarios["fsmact"] = func(arg string) simScenario {
		// "eq": the remote has the SAME BGP Identifier as the daemon (legal between ASes) and a 4-octet AS
		// number above the local one: RFC 6286 2.3 then lets the larger AS number decide, so the remote
		// dominates as in "hi" (its OPEN carries AS_TRANS in the 2-octet field: the real AS has to be used)
		return &c07aScenario{botHi: strings.Contains(arg, "hi") || strings.Contains(arg, "eq"), sameID: strings.Contains(arg, "eq"), c: map[string]*c07aConn{"in": {}, "out": {}}}
	}
}

func (sc *c07aScenario) ForceDrain() bool { return true }

func (sc *c07aScenario) bot(name string) *simBot {
	if name == "in" {
		return sc.in
	}
	return sc.out
}

func (sc *c07aScenario) Setup(w *simWorld) {
	verifRandHook = func() float64 { return 1.0 }
	verifDialHook = func(ctx context.Context, d *net.Dialer, network, address string) (net.Conn, error) {
		req := &c07aDialReq{ans: make(chan c07aDialAns, 1), at: w.now()}
		sc.pending = req
		sc.dials++
		sc.lastDialAt = w.now()
		defer func() {
			req.finished = true
			sc.lastEndAt = w.now()
			if sc.pending == req {
				sc.pending = nil
			}
		}()
		t := time.NewTimer(d.Timeout)
		defer t.Stop()
		select {
		case a := <-req.ans:
			return a.conn, a.err
		case <-ctx.Done():
			return nil, ctx.Err()
		case <-t.C:
			return nil, errors.New("dial tcp: i/o timeout")
		}
	}
	w.start()
	id := [4]byte{1, 1, 1, 1}
	if sc.botHi {
		id = [4]byte{200, 1, 1, 1}
	}
	as := uint32(65001)
	if sc.sameID {
		id, as = [4]byte{10, 0, 0, 254}, 4200000001
	}
	spec := simBotSpec{Name: "p", IP: [4]byte{10, 0, 0, 1}, AS: as, RouterID: id, HoldTime: c07Hold,
		Neighbor: func(n *oc.Neighbor) {
			n.Transport.Config.PassiveMode = false
			n.Transport.Config.LocalAddress = netip.AddrFrom4(w.serverIP)
			n.Timers.Config.HoldTime = c07Hold
			n.Timers.Config.KeepaliveInterval = c07KA
			n.Timers.Config.ConnectRetry = c07aRetry
		}}
	sc.in = w.addBot(spec)
	sc.out = &simBot{w: w, idx: 1, spec: spec, view: map[string]string{}}
	sc.out.spec.Name = "p-out"
	w.bots = append(w.bots, sc.out)
	w.advance(time.Second) // initial idle-hold time is zero: Idle -> Active
}

func (sc *c07aScenario) anyEstablished() string {
	for _, n := range []string{"in", "out"} {
		if sc.c[n].St == "established" {
			return n
		}
	}
	return ""
}

func (sc *c07aScenario) Enabled(w *simWorld) []simEvent {
	if sc.pruned || sc.Deleted {
		return nil
	}
	var ev []simEvent
	add := func(op string) { ev = append(ev, simEvent{Op: op}) }
	if sc.pending != nil && !sc.pending.finished {
		add("dial-ok")
		add("dial-refuse")
	}
	if !sc.in.connected() {
		add("conn")
	}
	for _, n := range []string{"in", "out"} {
		b := sc.bot(n)
		if !b.connected() {
			continue
		}
		pre := n[:1] + "-"
		st := sc.c[n].St
		if st == "opensent" {
			// (a second OPEN in OpenConfirm/Established is outside the alphabet, as in part sim)
			add(pre + "open")
			add(pre + "open-badas")
		}
		add(pre + "ka")
		add(pre + "upd")
		add(pre + "notif")
		add(pre + "close")
	}
	add("wait1")
	add("wait30")
	if sc.nextDeadline() > 0 {
		add("waitnext")
	}
	if sc.AdminDown {
		add("enable")
	} else {
		add("disable")
	}
	add("delete")
	return ev
}

func (sc *c07aScenario) nextDeadline() time.Duration {
	var d time.Duration
	for _, c := range sc.c {
		for _, x := range []time.Duration{c.Hold, c.KA} {
			if x > 0 && (d == 0 || x < d) {
				d = x
			}
		}
	}
	return d
}

func (sc *c07aScenario) other(n string) string {
	if n == "in" {
		return "out"
	}
	return "in"
}

// drop: the reference FSM of connection n releases its resources.
func (sc *c07aScenario) drop(n string) {
	c := sc.c[n]
	if c.St == "established" {
		sc.Routes = 0
	}
	c.St, c.Hold, c.KA = "", 0, 0
}

func (sc *c07aScenario) fail(n, notif string) {
	c := sc.c[n]
	if notif != "" {
		c.exp = append(c.exp, notif)
	}
	c.closed = true
	sc.drop(n)
}

func (sc *c07aScenario) openMsg(b *simBot, badAS bool) []byte {
	as := uint16(b.spec.AS)
	if b.spec.AS > 65535 {
		as = bgp.AS_TRANS
	}
	if badAS {
		as = 65099
	}
	bb := *b
	if badAS {
		bb.spec.AS = 65099
	}
	m, _ := bgp.NewBGPOpenMessage(as, c07Hold, netip.AddrFrom4(b.spec.RouterID), []bgp.OptionParameterInterface{bgp.NewOptionParameterCapability(bb.caps())})
	buf, err := m.Serialize()
	if err != nil {
		panic(err)
	}
	return buf
}

func (sc *c07aScenario) Apply(w *simWorld, e simEvent) {
	for n, c := range sc.c {
		c.exp, c.closed, c.touched = nil, false, false
		c.seq = len(sc.bot(n).rxAll())
	}
	sc.dialsAt = sc.dials
	sc.connNote = ""
	sc.openOn, sc.judged = "", false
	sc.noConnAt0 = sc.c["in"].St == "" && sc.c["out"].St == "" && !sc.in.connected() && !sc.out.connected()
	switch {
	case e.Op == "dial-ok":
		req := sc.pending
		srv := sc.out.attach(40001, 179)
		c := sc.c["out"]
		c.seq = 0
		req.ans <- c07aDialAns{conn: srv}
		// the daemon sends its OPEN on the new connection (no DelayOpen)
		c.St, c.Hold, c.KA = "opensent", c07OpenSent*time.Second, 0
		c.exp = append(c.exp, "OPEN")
	case e.Op == "dial-refuse":
		sc.pending.ans <- c07aDialAns{err: errors.New("dial tcp: connection refused")}
	case e.Op == "conn":
		sc.in.connect()
		sc.c["in"].seq = 0
		sc.c["in"].touched = true // judged in Check (several permitted outcomes)
	case strings.HasPrefix(e.Op, "i-") || strings.HasPrefix(e.Op, "o-"):
		n := "in"
		if e.Op[0] == 'o' {
			n = "out"
		}
		sc.message(w, n, e.Op[2:])
	case e.Op == "wait1" || e.Op == "wait30" || e.Op == "waitnext":
		d := time.Second
		if e.Op == "wait30" {
			d = 30 * time.Second
		}
		if e.Op == "waitnext" {
			d = sc.nextDeadline()
		}
		w.settle()
		sc.elapse(d)
		time.Sleep(d)
	case e.Op == "disable":
		w.must(w.s.DisablePeer(context.Background(), &api.DisablePeerRequest{Address: sc.in.addr().String()}))
		sc.AdminDown = true
		for _, n := range []string{"in", "out"} {
			if sc.c[n].St != "" {
				// RFC 4271 8.2.2: ManualStop in OpenSent / OpenConfirm / Established sends a Cease
				sc.fail(n, "NOTIF 6/2")
			}
		}
	case e.Op == "delete":
		w.must(w.s.DeletePeer(context.Background(), &api.DeletePeerRequest{Address: sc.in.addr().String()}))
		sc.Deleted = true
		for _, n := range []string{"in", "out"} {
			switch sc.c[n].St {
			case "established":
				sc.fail(n, "NOTIF 6/3") // RFC 4486: Peer De-configured
			case "opensent", "openconfirm":
				// de-configuration is not an event of the RFC 4271 FSM; as in part sim only the closing
				// of the connection is required before Established
				sc.fail(n, "")
			}
		}
	case e.Op == "enable":
		w.must(w.s.EnablePeer(context.Background(), &api.EnablePeerRequest{Address: sc.in.addr().String()}))
		sc.AdminDown = false
	default:
		panic("fsmact: unknown event " + e.Op)
	}
	w.settle()
	sc.connVerdict = nil
	if e.Op == "conn" {
		sc.judgeConn(w)
	}
	if sc.openOn != "" {
		sc.judgeOpen(w, sc.openOn)
	}
}

// judgeOpen: a valid OPEN arrived on connection n while the other connection d is still in OpenSent (the
// remote's OPEN has not been received on it). RFC 4271 6.8 detects a collision only against connections
// in OpenConfirm, but allows examining OpenSent ones when the identifier is known; permitted:
//   A  both are followed: n -> OpenConfirm (KEEPALIVE), d stays;
//   B1 d is dropped (Cease/7) and n -> OpenConfirm;
//   B2 n is dropped (Cease/7) because d is the connection the identifier rule prefers; d stays.
func (sc *c07aScenario) judgeOpen(w *simWorld, n string) {
	d := sc.other(n)
	c, o := sc.c[n], sc.c[d]
	gotC, gotD := fmt.Sprint(sc.got(n)), fmt.Sprint(sc.got(d))
	openC, openD := sc.bot(n).connected(), sc.bot(d).connected()
	winner := "out"
	if sc.botHi {
		winner = "in"
	}
	sc.judged = true
	confirm := func() {
		c.St, c.Hold, c.KA = "openconfirm", c07Hold*time.Second, c07KA*time.Second
	}
	switch {
	case gotC == "[KEEPALIVE]" && openC && openD && gotD == "[]":
		confirm()
		sc.connNote = "act-open-while-other-opensent:both-followed"
	case gotC == "[KEEPALIVE]" && openC && !openD && gotD == "[NOTIF 6/7]":
		confirm()
		sc.drop(d)
		sc.connNote = "act-open-while-other-opensent:other-dropped"
	case !openC && gotC == "[NOTIF 6/7]" && openD && gotD == "[]" && winner == d:
		sc.drop(n)
		sc.connNote = "act-open-while-other-opensent:this-dropped"
	default:
		sc.connVerdict = &simViolation{fmt.Sprintf("C07:active:open-while-other-opensent:conn=%s:got=%s/open=%v:other-got=%s/open=%v", n, gotC, openC, gotD, openD),
			fmt.Sprintf("a valid OPEN on the %s connection while the %s connection is in OpenSent: the daemon answered %s (connection open=%v) and sent %s on the other (open=%v); permitted: KEEPALIVE and both kept, KEEPALIVE and the other dropped with Cease/7, or Cease/7 on this one when the identifier rule prefers the other (remote id higher=%v)", n, d, gotC, openC, gotD, openD, sc.botHi)}
		_ = o
	}
}

// judgeConn: a new inbound connection has several permitted outcomes; the reference follows the one the
// daemon took (this runs in Apply because the model has to be right on every replayed prefix).
func (sc *c07aScenario) judgeConn(w *simWorld) {
	p := w.peer(sc.in)
	real := ""
	if p != nil {
		real = c07StateName[p.State()]
	}
	c := sc.c["in"]
	o := sc.c["out"]
	got := fmt.Sprint(sc.got("in"))
	open := sc.in.connected()
	bad := func(key, format string, a ...any) {
		sc.connVerdict = &simViolation{key, fmt.Sprintf(format, a...)}
	}
	switch {
	case sc.AdminDown:
		if open || got != "[]" {
			bad("C07:active:connection-accepted-while-admin-down", "an inbound connection while administratively down got %s, open=%v", got, open)
		}
	case o.St == "established":
		// S3
		if open {
			bad("C07:active:second-connection-kept-while-established", "a new inbound connection while the session is Established on the outbound one was not closed (messages on it: %s)", got)
		}
	case got == "[OPEN]" && open:
		c.St, c.Hold, c.KA = "opensent", c07OpenSent*time.Second, 0
		sc.connNote = "act-second-connection-tracked:other=" + o.St
	case got == "[]" && !open && (o.St == "opensent" || o.St == "openconfirm" || real == "idle"):
		// permitted: refused at once while another connection is being used, or while Idle
		sc.connNote = "act-second-connection-refused:other=" + o.St
	default:
		bad("C07:active:inbound-connection:other="+o.St, "inbound connection (outbound connection in reference state %q, daemon %s): the daemon answered %s and the connection is open=%v; expected an OPEN on it (or, while another connection is in use, an immediate close)", o.St, real, got, open)
	}
}

// message: the remote speaker sends op on connection n.
func (sc *c07aScenario) message(w *simWorld, n, op string) {
	b := sc.bot(n)
	c := sc.c[n]
	o := sc.c[sc.other(n)]
	switch op {
	case "open", "open-badas":
		b.send(sc.openMsg(b, op == "open-badas"))
		if c.St != "opensent" {
			panic("fsmact: OPEN outside OpenSent is not in the alphabet")
		}
		if op == "open-badas" {
			sc.fail(n, "NOTIF 2/2")
			return
		}
		switch o.St {
		case "opensent":
			// no collision is detectable yet; several behaviours are permitted (judgeOpen)
			sc.openOn = n
			return
		case "established":
			// S2: collision with an Established connection closes the new one
			sc.fail(n, "NOTIF 6/7")
			return
		case "openconfirm":
			// S2: RFC 4271 6.8 — the connection initiated by the higher BGP Identifier survives
			winner := "out"
			if sc.botHi {
				winner = "in"
			}
			if winner != n {
				sc.fail(n, "NOTIF 6/7")
				return
			}
			sc.fail(sc.other(n), "NOTIF 6/7")
		}
		c.St = "openconfirm"
		c.exp = append(c.exp, "KEEPALIVE")
		c.Hold, c.KA = c07Hold*time.Second, c07KA*time.Second
	case "ka":
		b.sendMsg(bgp.NewBGPKeepAliveMessage())
		switch c.St {
		case "opensent":
			sc.fail(n, "NOTIF 5/1")
		case "openconfirm":
			c.St = "established"
			c.Hold, c.KA = c07Hold*time.Second, c07KA*time.Second
		case "established":
			c.Hold = c07Hold * time.Second
		}
	case "upd":
		nlri, _ := bgp.NewIPAddrPrefix(netip.MustParsePrefix("10.10.1.0/24"))
		nh, _ := bgp.NewPathAttributeNextHop(netip.MustParseAddr("10.0.0.1"))
		attrs := []bgp.PathAttributeInterface{bgp.NewPathAttributeOrigin(0),
			bgp.NewPathAttributeAsPath([]bgp.AsPathParamInterface{bgp.NewAs4PathParam(bgp.BGP_ASPATH_ATTR_TYPE_SEQ, []uint32{65001})}), nh}
		b.sendMsg(bgp.NewBGPUpdateMessage(nil, attrs, []bgp.PathNLRI{{NLRI: nlri}}))
		switch c.St {
		case "opensent":
			sc.fail(n, "NOTIF 5/1")
		case "openconfirm":
			sc.fail(n, "NOTIF 5/2")
		case "established":
			c.Hold = c07Hold * time.Second
			sc.Routes = 1
		}
	case "notif":
		b.sendMsg(bgp.NewBGPNotificationMessage(bgp.BGP_ERROR_CEASE, bgp.BGP_ERROR_SUB_OTHER_CONFIGURATION_CHANGE, nil))
		switch c.St {
		case "opensent":
			sc.fail(n, "NOTIF 5/1") // RFC 4271 8.2.2 OpenSent: NotifMsg is one of the "any other event"s
		case "openconfirm", "established":
			sc.fail(n, "")
		}
	case "close":
		b.disconnect()
		sc.drop(n)
	default:
		panic("fsmact: unknown message " + op)
	}
}

func (sc *c07aScenario) elapse(d time.Duration) {
	for d > 0 {
		step := d
		if n := sc.nextDeadline(); n > 0 && n < step {
			step = n
		}
		d -= step
		for _, n := range []string{"in", "out"} {
			c := sc.c[n]
			dec := func(x *time.Duration) bool {
				if *x == 0 {
					return false
				}
				*x -= step
				return *x == 0
			}
			holdFired := dec(&c.Hold)
			kaFired := dec(&c.KA)
			if holdFired {
				sc.fail(n, "NOTIF 4/0")
				continue
			}
			if kaFired {
				c.exp = append(c.exp, "KEEPALIVE")
				c.KA = c07KA * time.Second
			}
		}
	}
}

func (sc *c07aScenario) got(n string) []string {
	all := sc.bot(n).rxAll()
	var got []string
	c := sc.c[n]
	if c.seq <= len(all) {
		for _, rx := range all[c.seq:] {
			got = append(got, c07MsgName(rx))
		}
	}
	return got
}

func (sc *c07aScenario) Check(w *simWorld, last *simEvent) {
	if last == nil {
		return
	}
	ev := last.Op
	p := w.peer(sc.in)
	if sc.Deleted {
		w.stat("act-ev-" + ev)
		if p != nil {
			w.violate("C07:active:deleted-peer-still-present", "peer still configured after DeletePeer")
		}
		for _, n := range []string{"in", "out"} {
			c := sc.c[n]
			got := sc.got(n)
			if fmt.Sprint(got) != fmt.Sprint(c.exp) {
				w.violate(fmt.Sprintf("C07:active:messages:delete:conn=%s:want=%v:got=%v", n, c.exp, got), "DeletePeer: on the %s connection the reference expects %v, the daemon emitted %v", n, c.exp, got)
			}
			if sc.bot(n).connected() {
				w.violate("C07:active:connection-kept:delete:conn="+n, "DeletePeer left the %s connection open", n)
			}
		}
		if sc.pending != nil && !sc.pending.finished {
			w.violate("C07:active:dial-pending-after-delete", "a dial is still pending after DeletePeer")
		}
		return
	}
	if p == nil {
		w.violate("C07:active:peer-vanished", "peer vanished")
		sc.pruned = true
		return
	}
	w.stat("act-ev-" + ev)
	real := c07StateName[p.State()]
	if ev == "conn" || sc.judged {
		if sc.connNote != "" {
			w.stat(sc.connNote)
		}
		if v := sc.connVerdict; v != nil {
			w.violate(v.Key, "%s", v.What)
			sc.pruned = true
		}
	}
	// S4: messages and closing, per connection
	for _, n := range []string{"in", "out"} {
		c := sc.c[n]
		if (ev == "conn" && n == "in") || sc.judged {
			continue
		}
		got := sc.got(n)
		if n == "out" && ev == "o-open" && real == "idle" && len(got) == 0 && fmt.Sprint(c.exp) == "[KEEPALIVE]" && sc.bot(n).connected() {
			// the daemon sits out an idle-hold time caused by an error on the other connection and
			// leaves the OPEN exchange on the outbound connection unanswered until it is over
			w.violate("C07:active:outbound-open-unanswered-during-idle-hold", "event %s: the remote's valid OPEN on the outbound connection is not answered with a KEEPALIVE while the daemon reports Idle (idle-hold time after an error on the inbound connection)", ev)
			sc.pruned = true
			return
		}
		if fmt.Sprint(got) != fmt.Sprint(c.exp) {
			cls := "messages"
			if len(c.exp) > 0 && c.exp[len(c.exp)-1] == "NOTIF 6/7" {
				cls = "collision-loser-not-notified"
			}
			w.violate(fmt.Sprintf("C07:active:%s:%s:conn=%s:want=%v:got=%v", cls, ev, n, c.exp, got),
				"event %s: on the %s connection the reference expects the daemon to emit %v, it emitted %v (reference: in=%q out=%q, daemon %s, remote id higher=%v)", ev, n, c.exp, got, sc.c["in"].St, sc.c["out"].St, real, sc.botHi)
		}
		b := sc.bot(n)
		if c.closed && b.connected() {
			w.violate(fmt.Sprintf("C07:active:connection-kept:%s:conn=%s", ev, n), "event %s: the reference closes the %s connection, the daemon kept it open (reference: in=%q out=%q, daemon %s, remote id higher=%v)", ev, n, sc.c["in"].St, sc.c["out"].St, real, sc.botHi)
			sc.pruned = true
		}
		if !c.closed && c.St != "" && !b.connected() {
			w.violate(fmt.Sprintf("C07:active:connection-closed:%s:conn=%s:state=%s", ev, n, c.St), "event %s: the daemon closed the %s connection (messages %v), the reference keeps it in %s (reference: in=%q out=%q, daemon %s, remote id higher=%v)", ev, n, got, c.St, sc.c["in"].St, sc.c["out"].St, real, sc.botHi)
			sc.pruned = true
		}
	}
	// S5: reported state
	allowed := map[string]bool{}
	for _, n := range []string{"in", "out"} {
		if st := sc.c[n].St; st != "" {
			allowed[st] = true
		}
	}
	if est := sc.anyEstablished(); est != "" {
		allowed = map[string]bool{"established": true}
		w.stat("act-established-on-" + est)
	}
	if len(allowed) == 0 {
		allowed["idle"], allowed["active"] = true, true
		if sc.AdminDown {
			delete(allowed, "active")
		}
	}
	if !allowed[real] && !sc.pruned && sc.c["out"].St == "opensent" && sc.c["in"].St == "" && (real == "active" || real == "idle") {
		// the outbound connection is in OpenSent (OPEN sent, waiting for the remote's) while the
		// daemon reports Active / Idle; exploration continues
		w.violate("C07:active:reported-state-hides-outbound-opensent:got="+real, "event %s: the daemon has sent its OPEN on the outbound connection and waits for the remote's (OpenSent), but reports %s", ev, real)
	} else if !allowed[real] && !sc.pruned {
		var al []string
		for k := range allowed {
			al = append(al, k)
		}
		sort.Strings(al)
		w.violate(fmt.Sprintf("C07:active:state:%s:want=%s:got=%s", ev, strings.Join(al, "|"), real), "event %s: the daemon is in %s; the reference connections are in=%q out=%q (allowed %v)", ev, real, sc.c["in"].St, sc.c["out"].St, al)
		sc.pruned = true
	}
	// S1: Established needs OPEN + KEEPALIVE on a connection that is still open
	if real == "established" && sc.anyEstablished() == "" && !sc.pruned {
		w.violate("C07:active:established-without-open-and-keepalive:"+ev, "the daemon reports Established, but on no open connection did the remote send OPEN and then KEEPALIVE (reference: in=%q out=%q)", sc.c["in"].St, sc.c["out"].St)
		sc.pruned = true
	}
	var rep *api.Peer
	_ = w.s.ListPeer(context.Background(), &api.ListPeerRequest{Address: sc.in.addr().String()}, func(x *api.Peer) { rep = x })
	if rep != nil {
		rs := strings.ToLower(strings.TrimPrefix(rep.State.SessionState.String(), "SESSION_STATE_"))
		if rs != real {
			w.violate("C07:active:reported-session-state:"+ev, "ListPeer reports %s, the FSM is in %s", rs, real)
		}
	}
	// RIB
	if n := len(w.adjInDump(p)); n != sc.Routes && !sc.pruned {
		w.violate("C07:active:rib:"+ev, "Adj-RIB-In holds %d routes, the reference expects %d (in=%q out=%q)", n, sc.Routes, sc.c["in"].St, sc.c["out"].St)
	}
	// S6: dialling
	pend := sc.pending != nil && !sc.pending.finished
	if sc.AdminDown && (pend || (sc.dials > sc.dialsAt && ev != "disable")) {
		w.violate("C07:active:dial-while-admin-down:"+ev, "the daemon dials although the peer is administratively down")
	}
	noConn := sc.c["in"].St == "" && sc.c["out"].St == "" && !sc.in.connected() && !sc.out.connected()
	if ev == "wait30" && noConn && sc.noConnAt0 && !sc.AdminDown && sc.dials == sc.dialsAt && !pend {
		w.violate("C07:active:no-dial-within-bound", "no connection, administratively up, 30 s passed (idle-hold %d s + connect-retry %d s + dial timeout): the daemon did not dial (state %s)", c07IdleHold, c07aRetry, real)
	}
	if pend {
		w.stat("act-dial-pending")
	}
}

func (sc *c07aScenario) Key(w *simWorld) string {
	age := func(t time.Duration) time.Duration {
		if t == 0 {
			return -1
		}
		return w.now() - t
	}
	pend := sc.pending != nil && !sc.pending.finished
	p := w.peer(sc.in)
	ocm := "none"
	if p != nil && p.fsm.outgoingConnMgr != nil {
		ocm = fmt.Sprintf("%v/%v", p.fsm.outgoingConnMgr.state.Load(), p.fsm.outgoingConnMgr.ctx.Err() != nil)
	}
	if sc.Deleted {
		return "deleted|" + w.stateKey()
	}
	return fmt.Sprintf("in=%+v out=%+v admin=%v routes=%d pruned=%v dial=%v/%v/%v ocm=%s conn=%v/%v|%s", *sc.c["in"], *sc.c["out"], sc.AdminDown, sc.Routes, sc.pruned,
		pend, age(sc.lastDialAt), age(sc.lastEndAt), ocm, sc.in.connected(), sc.out.connected(), w.stateKey())
}

func TestVerif_C07_Active(t *testing.T) {
	r := vr.Start(t, "C07", "active")
	defer r.Finish()
	r.Rule = "explicit-state BFS over event histories {outbound dial completes / is refused / times out, inbound connect, on either connection: OPEN valid / bad AS, KEEPALIVE, UPDATE, NOTIFICATION, remote close; wait 1 s / 30 s / exactly to the next hold or keepalive deadline; disable, enable, delete peer} on an ACTIVE peer of the real daemon in virtual time, remote BGP Identifier {lower, higher, equal with a larger 4-octet AS} than the daemon's, in lock-step with one reference RFC 4271 FSM per connection joined by the collision rule of section 6.8; non-trivial = distinct (reference state, daemon state) pair"
	r.Assumptions = append(r.Assumptions, "build-time dial seam: the daemon's net.Dialer.DialContext call and the connect-retry jitter go through hook variables (jitter factor fixed at 1.0)",
		"hold 9 s, keepalive 4 s, connect-retry 6 s; where the RFC leaves a choice (tracking or refusing a second connection before OpenConfirm, Idle vs Active without a connection, when exactly to dial) every permitted behaviour is accepted")
	if r.ReplayPath() != "" {
		var rp simReplay
		if err := r.LoadReplay(&rp); err != nil {
			t.Fatal(err)
		}
		simReplayOne(t, r, rp)
		return
	}
	depth := 6
	budget := 2 * time.Minute
	if vr.Thorough() {
		depth, budget = 9, 15*time.Minute
	}
	simExplore(t, r, simExploreCfg{Scenario: "fsmact", Arg: "lo", Depth: depth, Budget: budget})
	simExplore(t, r, simExploreCfg{Scenario: "fsmact", Arg: "hi", Depth: depth, Budget: budget})
	simExplore(t, r, simExploreCfg{Scenario: "fsmact", Arg: "eq", Depth: depth, Budget: budget})
	if len(r.Violations) == 0 {
		for _, k := range []string{"act-established-on-out", "act-established-on-in", "act-dial-pending"} {
			if r.Outcomes[k] == 0 {
				t.Fatalf("ENGINE-ERROR vacuous exploration: %q never seen: %v", k, r.Outcomes)
			}
		}
	}
	simConfirm(t, r, 5)
}
