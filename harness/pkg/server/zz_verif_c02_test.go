package server

import (
	"testing"
	"time"

	"github.com/osrg/gobgp/v4/internal/verif/vr"
)

// C02 — RIBs hold exactly the latest un-withdrawn route per source and path-id (E-SIM part).
func TestVerif_C02_Sim(t *testing.T) {
	r := vr.Start(t, "C02", "sim")
	defer r.Finish()
	r.Rule = "explicit-state BFS over event histories (announce incl. input-rejected variants / implicit replace / withdraw / duplicate withdraw / session down / re-establish / delete-peer / add-peer / API add and delete) on the real daemon in virtual time; every reached state compared with a map model: Adj-RIB-In == latest un-withdrawn announcement per (prefix, path-id) of the current session, Loc-RIB == accepted ones + local routes, counters and table summaries agree; non-trivial = distinct canonical daemon state"
	r.Assumptions = append(r.Assumptions, "schedules inside one event are those Go produced with GOMAXPROCS=1 (schedule quantification is the E-SCHED part)")
	if r.ReplayPath() != "" {
		var rp simReplay
		if err := r.LoadReplay(&rp); err != nil {
			t.Fatal(err)
		}
		simReplayOne(t, r, rp)
		return
	}
	type cfg struct {
		arg   string
		depth int
	}
	var cfgs []cfg
	if vr.Thorough() {
		for _, c := range []string{"ee", "ei", "ec", "ss", "ea", "aa", "e6", "eee", "eic", "eea", "sse"} {
			d := 5
			if len(c) == 3 {
				d = 4
			}
			cfgs = append(cfgs, cfg{"cfg=" + c + ";oracle=c02;nvar=4", d})
		}
		cfgs = append(cfgs, cfg{"cfg=ie;oracle=c02;nvar=5;npfx=1;src=0;flap=0;noapi;nopeers", 6}, cfg{"cfg=ce;oracle=c02;nvar=5;npfx=1;src=0;flap=0;noapi;nopeers", 6})
	} else {
		for _, c := range []string{"ee", "ea"} {
			cfgs = append(cfgs, cfg{"cfg=" + c + ";oracle=c02;nvar=4", 3})
		}
		for _, c := range []string{"ei", "ss", "eic", "e6"} {
			cfgs = append(cfgs, cfg{"cfg=" + c + ";oracle=c02;nvar=4", 2})
		}
		// sharp driver: one iBGP source, one prefix, five variants (two of them refused by an input loop
		// check: own AS in the path, own router id as ORIGINATOR_ID): a refused replacement must take the
		// route it replaces out of every RIB
		cfgs = append(cfgs, cfg{"cfg=ie;oracle=c02;nvar=5;npfx=1;src=0;flap=0;noapi;nopeers", 4})
	}
	// sharp driver: two parallel sessions to one router (same AS, same BGP identifier, different addresses) are two
	// sources: what one withdraws or loses must not take the other's route out of the Loc-RIB
	dd := 4
	if vr.Thorough() {
		dd = 6
	}
	cfgs = append(cfgs, cfg{"cfg=dde;oracle=c02;nvar=2;npfx=1;src=01;flap=01;noapi;nopeers", dd})
	budget := 60 * time.Second
	if vr.Thorough() {
		budget = 3 * time.Minute
	}
	for _, c := range cfgs {
		// the wall budget is only tested between levels: the level-size cap is what bounds a level's cost
		simExplore(t, r, simExploreCfg{Scenario: "routes", Arg: c.arg, Depth: c.depth, Budget: budget, MaxLevel: 40000})
	}
	if r.Outcomes["Loc-RIB-compared"] == 0 || r.States < 100 {
		t.Fatalf("ENGINE-ERROR vacuous exploration")
	}
	simConfirm(t, r, 5)
}
