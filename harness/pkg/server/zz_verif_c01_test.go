package server

import (
	"os"
	"strings"
	"testing"
	"time"

	"github.com/osrg/gobgp/v4/internal/verif/vr"
)

// C01 — each peer has been told exactly the current export of the Loc-RIB (E-SIM part).
func TestVerif_C01_Sim(t *testing.T) {
	r := vr.Start(t, "C01", "sim")
	defer r.Finish()
	r.Rule = "explicit-state BFS over event histories (announce/withdraw per bot, prefix and attribute variant; session down/up; peer delete/add; API add/delete) on the real daemon in virtual time, one scenario per peer-set configuration; a state is non-trivial when it is a distinct canonical daemon state (RIBs, Adj-RIB-Ins, sent-path bookkeeping, FSM states, each bot's accumulated view)"
	r.Assumptions = append(r.Assumptions,
		"bots decode what the daemon writes with the gobgp codec (independently validated by C04)",
		"schedules inside one event are those Go produced with GOMAXPROCS=1 (schedule quantification is the E-SCHED part)")
	if r.ReplayPath() != "" {
		var rp simReplay
		if err := r.LoadReplay(&rp); err != nil {
			t.Fatal(err)
		}
		simReplayOne(t, r, rp)
		return
	}
	type cfg struct {
		arg   string
		depth int
	}
	var cfgs []cfg
	if vr.Thorough() {
		for _, c := range []string{"ee", "ei", "ii", "ec", "ic", "ss", "ea", "e6", "eee", "eei", "eic", "ecc", "iic", "sss", "eea", "e66"} {
			d := 5
			if len(c) == 3 {
				d = 4
			}
			cfgs = append(cfgs, cfg{"cfg=" + c + ";oracle=c01", d})
		}
	} else {
		for _, c := range []string{"ee", "ei", "ec", "ss", "ea", "eic"} {
			d := 3
			cfgs = append(cfgs, cfg{"cfg=" + c + ";oracle=c01", d})
		}
	}
	if s := os.Getenv("VERIF_C01_CFGS"); s != "" {
		cfgs = nil
		for _, c := range strings.Split(s, ",") {
			cfgs = append(cfgs, cfg{"cfg=" + c + ";oracle=c01", 4})
		}
	}
	budget := 60 * time.Second
	if vr.Thorough() {
		budget = 8 * time.Minute
	}
	// small sharp drivers: two sources, one prefix, one observer that is the only one to flap —
	// deep histories over a tiny alphabet (send-max bookkeeping across session flaps, withdraw /
	// re-announce orders)
	deep := 6
	if vr.Thorough() {
		deep = 8
	}
	for _, c := range []string{"eeA", "eea", "eee", "eic"} {
		if !vr.Thorough() && (c == "eee" || c == "eic") {
			continue
		}
		cfgs = append(cfgs, cfg{"cfg=" + c + ";oracle=c01;npfx=1;nvar=1;noapi;nopeers;src=01;flap=2", deep})
	}
	for _, c := range cfgs {
		simExplore(t, r, simExploreCfg{Scenario: "routes", Arg: c.arg, Depth: c.depth, Budget: budget})
	}
	if r.Outcomes["export-nonempty"] == 0 {
		t.Fatalf("ENGINE-ERROR vacuous exploration: no state had a non-empty expected export")
	}
	simConfirm(t, r, 5)
}
