package server

// C08 part "session" — session parameters are the intersection of both OPEN messages, end to end.
// One synctest bubble per (neighbour configuration x received OPEN): the real daemon, a passive peer, a
// scripted remote speaker that sends hand-assembled bytes, virtual time. Everything observable is
// compared with the independent model internal/verif/refnegotiate:
//   the OPEN bytes the daemon sent, refusal (NOTIFICATION code/subcode) or Established, fsm state after
//   establishment (familyMap, capMap, twoByteAsTrans, extendedMessage, isEBGP, Timers.State, PeerType,
//   PeerAs, ListPeer), the UPDATEs it then sends for two locally injected routes (parsed by refwire under
//   the REFERENCE options: families, path identifiers, AS_PATH width), an UPDATE it receives encoded under
//   the reference options (Adj-RIB-In content), the KEEPALIVE cadence and the hold-timer expiry instant,
//   the second session after the expiry (same checks: nothing stale), a 5000-octet UPDATE, a 5000-octet
//   KEEPALIVE and a 5000-octet OPEN.

import (
	"context"
	"encoding/binary"
	"encoding/json"
	"fmt"
	"math"
	"net/netip"
	"os"
	"sort"
	"strconv"
	"strings"
	"testing"
	"time"

	api "github.com/osrg/gobgp/v4/api"
	rn "github.com/osrg/gobgp/v4/internal/verif/refnegotiate"
	"github.com/osrg/gobgp/v4/internal/verif/refwire"
	"github.com/osrg/gobgp/v4/internal/verif/vr"
	"github.com/osrg/gobgp/v4/pkg/apiutil"
	"github.com/osrg/gobgp/v4/pkg/config/oc"
	"github.com/osrg/gobgp/v4/pkg/packet/bgp"
)

func init() {
	simScenarios["c08"] = func(arg string) simScenario {
		sc := &c08Scenario{}
		if err := json.Unmarshal([]byte(arg), &sc.cs); err != nil {
			panic("c08: bad case: " + err.Error())
		}
		return sc
	}
}

type c08Scenario struct {
	cs      c08Case
	summary []string
	seen    map[string]bool // violation keys already recorded in this bubble
	session int
	remote  c08Remote // the OPEN of the current session
}

func (sc *c08Scenario) ForceDrain() bool               { return true }
func (sc *c08Scenario) Enabled(w *simWorld) []simEvent { return nil }
func (sc *c08Scenario) Apply(w *simWorld, e simEvent)  { panic("c08: no events") }
func (sc *c08Scenario) Check(w *simWorld, l *simEvent) {}
func (sc *c08Scenario) Key(w *simWorld) string         { return strings.Join(sc.summary, "|") }

func (sc *c08Scenario) note(f string, a ...any) { sc.summary = append(sc.summary, fmt.Sprintf(f, a...)) }

// bad records a violation. Keys are stable per oracle clause (the same clause failing in the second
// session of the bubble is the same class and is recorded once).
func (sc *c08Scenario) bad(w *simWorld, key, f string, a ...any) {
	if sc.seen[key] {
		return
	}
	sc.seen[key] = true
	where := ""
	if sc.session == 2 {
		where = fmt.Sprintf(" [SECOND session on the same peer, remote OPEN now {hold=%d as=%s mp=%s addpath=%s ext=%v unknown=%v, one optional parameter per capability}]",
			sc.remote.Hold, c08ASFormNames[sc.remote.ASForm], c08MPNames[sc.remote.MP], c08APNames[sc.remote.AP], sc.remote.Ext, sc.remote.Unk)
	} else if sc.session == 3 {
		where = " [third connection]"
	}
	w.violate("C08:"+key, "%s%s: "+f, append([]any{sc.cs.String(), where}, a...)...)
}

// local routes injected before the session comes up
var (
	c08LocalV4   = netip.MustParsePrefix("10.8.0.0/24")
	c08LocalV6   = netip.MustParsePrefix("2001:db8:8::/48")
	c08LocalPath = []uint32{65100, 4200000100}
	c08BotV4     = netip.MustParsePrefix("10.9.0.0/24")
	c08BotV6     = netip.MustParsePrefix("2001:db8:9::/48")
	c08BigV4     = netip.MustParsePrefix("10.9.1.0/24")
	c08BigV6     = netip.MustParsePrefix("2001:db8:9:1::/64")
)

func c08AddLocalRoutes(w *simWorld) {
	for _, pfx := range []netip.Prefix{c08LocalV4, c08LocalV6} {
		nlri, _ := bgp.NewIPAddrPrefix(pfx)
		attrs := []bgp.PathAttributeInterface{bgp.NewPathAttributeOrigin(0),
			bgp.NewPathAttributeAsPath([]bgp.AsPathParamInterface{bgp.NewAs4PathParam(bgp.BGP_ASPATH_ATTR_TYPE_SEQ, c08LocalPath)})}
		fam := bgp.RF_IPv4_UC
		if pfx.Addr().Is4() {
			nh, _ := bgp.NewPathAttributeNextHop(netip.MustParseAddr("10.0.0.200"))
			attrs = append(attrs, nh)
		} else {
			fam = bgp.RF_IPv6_UC
			re, _ := bgp.NewPathAttributeMpReachNLRI(fam, []bgp.PathNLRI{{NLRI: nlri}}, netip.MustParseAddr("2001:db8::200"))
			attrs = append(attrs, re)
		}
		_, err := w.s.AddPath(apiutil.AddPathRequest{Paths: []*apiutil.Path{{Family: fam, Nlri: nlri, Attrs: attrs}}})
		w.must(err)
	}
	w.settle()
}

func c08RxName(rx simRx) string {
	switch rx.Type {
	case 1:
		return "OPEN"
	case 2:
		return "UPDATE"
	case 4:
		return "KEEPALIVE"
	case 5:
		return "ROUTE-REFRESH"
	case 3:
		if len(rx.Raw) >= 21 {
			return fmt.Sprintf("NOTIF %d/%d", rx.Raw[19], rx.Raw[20])
		}
		return "NOTIF ?"
	}
	return fmt.Sprintf("TYPE%d", rx.Type)
}

func c08Names(rxs []simRx) []string {
	out := []string{}
	for _, r := range rxs {
		out = append(out, c08RxName(r))
	}
	return out
}

func c08Sec(d time.Duration) string { return strconv.FormatFloat(d.Seconds(), 'f', -1, 64) }

// c08Complement derives the OPEN of the second session on the same peer from the first: every
// capability choice differs (so that anything left over from the first session shows), the real AS stays.
func c08Complement(cs c08Case) c08Remote {
	r := cs.R
	r2 := c08Remote{MP: (r.MP + 2) % len(c08MPNames), AP: (r.AP + 3) % len(c08APNames), Ext: !r.Ext, Unk: !r.Unk, ASForm: r.ASForm}
	for i, h := range c08RemoteHolds[:4] {
		if h == r.Hold {
			r2.Hold = c08RemoteHolds[(i+1)%4]
		}
	}
	switch {
	case r.ASForm == 0:
		r2.ASForm = 2
	case r.ASForm == 2:
		r2.ASForm = 0
	case r.ASForm == 3 && cs.L.AS <= 65535:
		r2.ASForm = 4
	case r.ASForm == 4 && cs.L.AS <= 65535:
		r2.ASForm = 3
	}
	return r2
}

func (sc *c08Scenario) Setup(w *simWorld) {
	cs := sc.cs
	sc.seen = map[string]bool{}
	myAS, cap4, realAS := c08RemoteASOf(cs.R.ASForm, cs.L.AS)
	L := c08RefLocal(cs.L, realAS)
	w.serverAS = cs.L.AS
	w.start()
	c08AddLocalRoutes(w)
	b := w.addBot(simBotSpec{Name: "p", IP: c08BotIP, AS: realAS, RouterID: c08RemoteID, HoldTime: uint16(cs.R.Hold),
		Neighbor: func(n *oc.Neighbor) { c08ApplyLocal(n, cs.L, realAS) }})
	if w.peer(b) == nil {
		panic("c08: the neighbour configuration was refused")
	}
	w.advance(time.Second) // initial idle-hold time is zero: Idle -> Active
	openRaw := c08OpenBytes(myAS, uint16(cs.R.Hold), c08RemoteID, c08RemoteCaps(cs.R, cap4), false)
	recv, err := rn.ParseOpen(openRaw)
	if err != nil {
		panic("c08: own OPEN does not parse: " + err.Error())
	}

	// ---- session 1: negotiation, encodings, keepalive cadence, hold expiry
	sc.session = 1
	sc.remote = cs.R
	res, ok := sc.handshake(w, b, L, recv, openRaw)
	if !ok {
		return
	}
	sc.cadence(w, b, res)
	// ---- session 2 on the same peer with the complementary OPEN: nothing stale; then the large messages
	if !sc.waitActive(w, b) {
		return
	}
	sc.session = 2
	sc.remote = c08Complement(cs)
	myAS2, cap42, realAS2 := c08RemoteASOf(sc.remote.ASForm, cs.L.AS)
	if realAS2 != realAS {
		panic("c08: complement changes the AS")
	}
	openRaw2 := c08OpenBytes(myAS2, uint16(sc.remote.Hold), c08RemoteID, c08RemoteCaps(sc.remote, cap42), true)
	recv2, err := rn.ParseOpen(openRaw2)
	if err != nil {
		panic("c08: own OPEN does not parse: " + err.Error())
	}
	res2, ok := sc.handshake(w, b, L, recv2, openRaw2)
	if !ok {
		return
	}
	sc.large(w, b, res2)
	// ---- a third connection: an OPEN above 4096 octets is never acceptable
	if !sc.waitActive(w, b) {
		return
	}
	sc.session = 3
	sc.bigOpen(w, b, myAS, cs, cap4)
}

func (sc *c08Scenario) waitActive(w *simWorld, b *simBot) bool {
	b.disconnect()
	w.settle()
	for i := 0; i < 12; i++ {
		if p := w.peer(b); p != nil && p.State() == bgp.BGP_FSM_ACTIVE {
			return true
		}
		w.advance(time.Second)
	}
	w.stat("peer-did-not-return-to-active")
	sc.note("not-active")
	return false
}

// effective ADD-PATH mode of a family: the reference's, or — where the reference accepts several
// (conflicting tuples) — the one the daemon chose if it is acceptable.
func c08Effective(res *rn.Result, actual map[bgp.Family]bgp.BGPAddPathMode, f rn.Family) uint8 {
	acc := res.AddPath[f]
	if len(acc) == 0 {
		return 0
	}
	if m, ok := actual[bgp.NewFamily(f.AFI, f.SAFI)]; ok {
		for _, a := range acc {
			if a == uint8(m) {
				return a
			}
		}
	}
	return acc[0]
}

// handshake runs connect / OPEN exchange / KEEPALIVE and checks every negotiation observable.
// ok=false: the session did not (or must not) come up; nothing more to observe.
func (sc *c08Scenario) handshake(w *simWorld, b *simBot, L rn.Local, recv *rn.Open, openRaw []byte) (*rn.Result, bool) {
	cs := sc.cs
	b.connect()
	w.settle()
	rx := b.rxAll()
	if len(rx) != 1 || rx[0].Type != 1 {
		sc.bad(w, "no-open-sent", "after the connection was accepted the daemon sent %v, want exactly one OPEN", c08Names(rx))
		return nil, false
	}
	sent, err := rn.ParseOpen(rx[0].Raw)
	if err != nil {
		sc.bad(w, "sent-open-malformed", "the OPEN sent does not parse: %v (% x)", err, rx[0].Raw)
		return nil, false
	}
	for _, d := range rn.ExpectOpen(L, sent) {
		sc.bad(w, "sent-open:"+d[0], "OPEN sent [% x]: %s", rx[0].Raw, d[1])
	}
	res := rn.Negotiate(L, sent, recv)

	b.send(openRaw)
	w.settle()
	rx = b.rxAll()
	got := c08Names(rx[1:])
	p := w.peer(b)
	if res.Refused {
		want := []string{fmt.Sprintf("NOTIF %d/%d", res.NotifCode, res.NotifSub)}
		w.stat("refused")
		sc.note("refused %v", want)
		if fmt.Sprint(got) != fmt.Sprint(want) {
			sc.bad(w, fmt.Sprintf("refusal-messages:want=%d/%d", res.NotifCode, res.NotifSub), "received OPEN with hold time %d must be refused with %v; the daemon answered %v", sc.remote.Hold, want, got)
		}
		if b.connected() {
			sc.bad(w, "refusal-connection-kept", "the OPEN must be refused, the connection is still open")
		}
		if st := p.State(); st == bgp.BGP_FSM_OPENCONFIRM || st == bgp.BGP_FSM_ESTABLISHED {
			sc.bad(w, "refusal-state", "the OPEN must be refused, the FSM is in %s", st)
		}
		return res, false
	}
	if fmt.Sprint(got) != "[KEEPALIVE]" || !b.connected() {
		sc.bad(w, "open-not-accepted", "an acceptable OPEN must be answered with a KEEPALIVE; the daemon sent %v, connection open=%v", got, b.connected())
		return res, false
	}
	nBefore := len(rx)
	b.send(c08KeepaliveBytes())
	w.settle()
	if st := p.State(); st != bgp.BGP_FSM_ESTABLISHED {
		sc.bad(w, "not-established", "OPEN and KEEPALIVE exchanged, the FSM is in %s", st)
		return res, false
	}
	w.stat("established")
	if sc.session == 2 {
		w.stat("established-second-session")
	}

	// ---- white-box state
	fsm := p.fsm
	fsm.lock.Lock()
	var codes []uint8
	for c := range fsm.capMap {
		codes = append(codes, uint8(c))
	}
	fsm.lock.Unlock()
	sort.Slice(codes, func(i, j int) bool { return codes[i] < codes[j] })
	fmap := fsm.familyMap.Load().(map[bgp.Family]bgp.BGPAddPathMode)
	conf := fsm.pConf.ReadOnly()

	var gotFams []string
	for f := range fmap {
		gotFams = append(gotFams, f.String())
	}
	sort.Strings(gotFams)
	wantFams := []string{}
	for _, f := range res.Families {
		wantFams = append(wantFams, f.String())
	}
	sort.Strings(wantFams)
	sc.note("fams=%v", wantFams)
	w.stat(fmt.Sprintf("families=%v", wantFams))
	if fmt.Sprint(gotFams) != fmt.Sprint(wantFams) {
		sc.bad(w, "families", "negotiated families are %v, both sides announced exactly %v", gotFams, wantFams)
	}
	for _, f := range res.Families {
		m, ok := fmap[bgp.NewFamily(f.AFI, f.SAFI)]
		if !ok {
			continue
		}
		acc := res.AddPath[f]
		okMode := false
		for _, a := range acc {
			if a == uint8(m) {
				okMode = true
			}
		}
		w.stat(fmt.Sprintf("addpath-%s-%s=%d", res.AddPathWhat[f], f, m))
		if res.AddPathWhat[f] == "conflict" {
			tuples := []uint8{}
			for _, t := range recv.AddPathTuples() {
				if t.F == f {
					tuples = append(tuples, t.Mode)
				}
			}
			w.stat(fmt.Sprintf("conflicting-tuples-local=%d-remote=%v-chosen=%d", L.AddPath[f], tuples, m))
		}
		if !okMode {
			sc.bad(w, fmt.Sprintf("addpath-mode:%s", res.AddPathWhat[f]), "ADD-PATH for %s negotiated as mode %d (1=receive 2=send); local configuration %d, remote tuples %v: acceptable %v",
				f, m, L.AddPath[f], recv.AddPathTuples(), acc)
		}
	}
	sc.note("4oct=%v ext=%v hold=%d ka=%v internal=%v", res.FourOctet, res.ExtMsg, res.Hold, res.KeepaliveSec, res.Internal)
	w.stat(fmt.Sprintf("four-octet=%v", res.FourOctet))
	w.stat(fmt.Sprintf("ext-msg=%v", res.ExtMsg))
	w.stat(fmt.Sprintf("internal=%v/peer-as-configured=%v", res.Internal, cs.L.PeerAs))
	if fsm.twoByteAsTrans != !res.FourOctet {
		sc.bad(w, "four-octet-flag", "fsm.twoByteAsTrans=%v; 4-octet capability announced by local=%v remote=%v", fsm.twoByteAsTrans, sent.Has(rn.CapFourOctetAS), recv.Has(rn.CapFourOctetAS))
	}
	if fsm.extendedMessage.Load() != res.ExtMsg {
		sc.bad(w, "extended-message-flag", "fsm.extendedMessage=%v; extended-message capability announced by local=%v remote=%v", fsm.extendedMessage.Load(), sent.Has(rn.CapExtMessage), recv.Has(rn.CapExtMessage))
	}
	if conf.Timers.State.NegotiatedHoldTime != float64(res.Hold) {
		sc.bad(w, "negotiated-hold", "negotiated hold time %v, want min(%d,%d)=%d", conf.Timers.State.NegotiatedHoldTime, L.Hold, recv.Hold, res.Hold)
	}
	if res.Hold != 0 {
		ka := conf.Timers.State.KeepaliveInterval
		if ka > res.KeepaliveSec+1e-9 || ka < math.Floor(res.KeepaliveSec)-1e-9 {
			sc.bad(w, fmt.Sprintf("keepalive-interval-state:configured-applies=%v", res.KeepaliveCfg), "keepalive interval %v, want %v (negotiated hold %d, configured hold %d, configured keepalive %d)", ka, res.KeepaliveSec, res.Hold, L.Hold, L.Keepalive)
		}
	}
	wantType := oc.PEER_TYPE_EXTERNAL
	if res.Internal {
		wantType = oc.PEER_TYPE_INTERNAL
	}
	if conf.State.PeerType != wantType {
		sc.bad(w, fmt.Sprintf("peer-type:peer-as-configured=%v", cs.L.PeerAs), "peer type %q, the real remote AS is %d and the local AS %d: want %q", conf.State.PeerType, res.RemoteAS, L.AS, wantType)
	}
	if conf.State.PeerAs != res.RemoteAS {
		sc.bad(w, "peer-as", "State.PeerAs=%d, the real remote AS is %d", conf.State.PeerAs, res.RemoteAS)
	}
	if fsm.isEBGP != !res.Internal {
		sc.bad(w, fmt.Sprintf("fsm-isebgp:peer-as-configured=%v", cs.L.PeerAs), "fsm.isEBGP=%v (option for validating received UPDATEs); the real remote AS is %d and the local AS %d", fsm.isEBGP, res.RemoteAS, L.AS)
	}
	wantCodes := append([]uint8{}, res.RemoteCodes...)
	if !recv.Has(rn.CapMultiProtocol) {
		wantCodes = append([]uint8{rn.CapMultiProtocol}, wantCodes...) // the implied IPv4-unicast family is kept as a capability
	}
	if fmt.Sprint(codes) != fmt.Sprint(wantCodes) {
		sc.bad(w, "capmap-codes", "fsm.capMap holds capability codes %v, the remote OPEN carried %v", codes, wantCodes)
	}
	var rep *api.Peer
	_ = w.s.ListPeer(context.Background(), &api.ListPeerRequest{Address: b.addr().String()}, func(x *api.Peer) { rep = x })
	if rep == nil || rep.Timers == nil || rep.Timers.State == nil || rep.State == nil {
		sc.bad(w, "listpeer-missing", "ListPeer does not report the peer's state")
	} else {
		if rep.Timers.State.NegotiatedHoldTime != uint64(res.Hold) {
			sc.bad(w, "listpeer-negotiated-hold", "ListPeer reports negotiated hold time %d, want %d", rep.Timers.State.NegotiatedHoldTime, res.Hold)
		}
		wantAPI := api.PeerType_PEER_TYPE_EXTERNAL
		if res.Internal {
			wantAPI = api.PeerType_PEER_TYPE_INTERNAL
		}
		if rep.State.Type != wantAPI {
			sc.bad(w, fmt.Sprintf("listpeer-peer-type:peer-as-configured=%v", cs.L.PeerAs), "ListPeer reports peer type %v, want %v", rep.State.Type, wantAPI)
		}
		if rep.State.PeerAsn != res.RemoteAS {
			sc.bad(w, "listpeer-peer-as", "ListPeer reports peer AS %d, want %d", rep.State.PeerAsn, res.RemoteAS)
		}
	}

	// ---- what the daemon sends now: the two local routes, for negotiated families only, under the reference options
	opts := refwire.Options{AddPath: map[refwire.AFISAFI]bool{}, Extended: res.ExtMsg}
	for _, f := range res.Families {
		if c08Effective(res, fmap, f)&rn.APSend != 0 {
			opts.AddPath[refwire.AFISAFI{AFI: f.AFI, SAFI: f.SAFI}] = true
		}
	}
	rx = b.rxAll()
	type ann struct {
		hasID bool
		attrs [][]byte
	}
	gotRoutes := map[string]ann{}
	parseFailed := false
	for _, m := range rx[nBefore:] {
		if m.Type != 2 {
			sc.bad(w, "unexpected-message-after-establishment", "the daemon sent %s right after establishment", c08RxName(m))
			continue
		}
		ch, err := refwire.ApplyUpdate(m.Raw, opts)
		if err != nil {
			parseFailed = true
			sc.bad(w, "sent-update-unparsable-under-negotiated-options", "an UPDATE sent by the daemon does not parse under the reference options (add-path %v, extended %v): %v [% x]", opts.AddPath, opts.Extended, err, m.Raw)
			continue
		}
		if len(ch.Withdrawn) != 0 || len(ch.Unparsed) != 0 {
			sc.bad(w, "sent-update-unexpected-content", "an UPDATE sent by the daemon withdraws %v / carries families %v", ch.Withdrawn, ch.Unparsed)
		}
		for _, r := range ch.Announced {
			gotRoutes[fmt.Sprintf("%d/%d %x/%d", r.AFI, r.SAFI, r.Prefix, r.Bits)] = ann{opts.AddPath[refwire.AFISAFI{AFI: r.AFI, SAFI: r.SAFI}], ch.Attrs}
		}
	}
	wantRoutes := map[string]bool{}
	for _, f := range res.Families {
		pfx := c08LocalV4
		if f == rn.V6 {
			pfx = c08LocalV6
		}
		wantRoutes[fmt.Sprintf("%d/%d %x/%d", f.AFI, f.SAFI, pfx.Addr().AsSlice()[:(pfx.Bits()+7)/8], pfx.Bits())] = true
	}
	if !parseFailed {
		var gk, wk []string
		for k := range gotRoutes {
			gk = append(gk, k)
		}
		for k := range wantRoutes {
			wk = append(wk, k)
		}
		sort.Strings(gk)
		sort.Strings(wk)
		if fmt.Sprint(gk) != fmt.Sprint(wk) {
			sc.bad(w, "sent-routes", "routes announced to the peer (parsed under the reference options: add-path send %v) are %v, want %v (negotiated families %v)", opts.AddPath, gk, wk, wantFams)
		}
		w.stat(fmt.Sprintf("sent-routes=%d/add-path-send=%d", len(gk), len(opts.AddPath)))
	}
	for k, a := range gotRoutes {
		if !wantRoutes[k] {
			continue
		}
		sc.checkASPath(w, k, a.attrs, res, L)
	}

	// ---- what the daemon accepts: an UPDATE encoded under the reference options
	if len(res.Families) > 0 {
		f := res.Families[0]
		u := sc.botUpdate(res, fmap, f, false)
		n0 := len(b.rxAll())
		b.send(c08UpdateBytes(u))
		w.settle()
		after := b.rxAll()
		if len(after) != n0 || p.State() != bgp.BGP_FSM_ESTABLISHED {
			sc.bad(w, "received-update-refused", "an UPDATE encoded under the negotiated options (family %s, path-id %v, %d-octet AS numbers, AS_PATH %v) was answered with %v, state %s",
				f, u.PathID != nil, map[bool]int{false: 2, true: 4}[u.FourByte], u.ASPath, c08Names(after[n0:]), p.State())
			return res, false
		}
		sc.checkAdjIn(w, p, u, "small")
	} else {
		w.stat("no-family-negotiated")
	}
	return res, true
}

func (sc *c08Scenario) botUpdate(res *rn.Result, fmap map[bgp.Family]bgp.BGPAddPathMode, f rn.Family, big bool) c08Upd {
	u := c08Upd{Fam: f, FourByte: res.FourOctet, Internal: res.Internal}
	switch {
	case f == rn.V4 && !big:
		u.Prefix = c08BotV4
	case f == rn.V4:
		u.Prefix = c08BigV4
	case !big:
		u.Prefix = c08BotV6
	default:
		u.Prefix = c08BigV6
	}
	if c08Effective(res, fmap, f)&rn.APReceive != 0 {
		id := uint32(7)
		u.PathID = &id
	}
	tail := uint32(64999)
	if res.FourOctet {
		tail = 4200000555
	}
	if !res.Internal {
		u.ASPath = append(u.ASPath, res.RemoteAS)
	}
	u.ASPath = append(u.ASPath, tail)
	if big {
		u.Total = 5000
	}
	return u
}

func (sc *c08Scenario) checkAdjIn(w *simWorld, p *peer, u c08Upd, what string) {
	fam := bgp.NewFamily(u.Fam.AFI, u.Fam.SAFI)
	var found bool
	var have []string
	for _, path := range p.adjRibIn.PathList([]bgp.Family{bgp.RF_IPv4_UC, bgp.RF_IPv6_UC}, false) {
		have = append(have, fmt.Sprintf("%s %s id=%d as=%v", path.GetFamily(), path.GetNlri(), path.RemoteID(), path.GetAsSeqList()))
		if path.GetFamily() != fam || path.GetNlri().String() != u.Prefix.String() {
			continue
		}
		found = true
		wantID := uint32(0)
		if u.PathID != nil {
			wantID = *u.PathID
		}
		if path.RemoteID() != wantID {
			sc.bad(w, "received-update-path-id", "%s UPDATE: path identifier %d in the Adj-RIB-In, sent %d", what, path.RemoteID(), wantID)
		}
		if fmt.Sprint(path.GetAsSeqList()) != fmt.Sprint(u.ASPath) {
			sc.bad(w, "received-update-as-path", "%s UPDATE: AS_PATH %v in the Adj-RIB-In, sent %v as %d-octet numbers", what, path.GetAsSeqList(), u.ASPath, map[bool]int{false: 2, true: 4}[u.FourByte])
		}
	}
	sort.Strings(have)
	if !found {
		sc.bad(w, "received-update-not-installed:"+what, "%s UPDATE for %s %s was accepted but the Adj-RIB-In holds %v", what, u.Fam, u.Prefix, have)
	}
	w.stat("received-update-installed-" + what)
}

// checkASPath: AS_PATH of a route the daemon announced. Width per the reference (4-octet iff both
// announced the capability); content: the injected path, preceded by the local AS towards an external
// peer; under 2-octet encoding every AS that does not fit is AS_TRANS and AS4_PATH carries the real ones.
func (sc *c08Scenario) checkASPath(w *simWorld, route string, attrs [][]byte, res *rn.Result, L rn.Local) {
	want := append([]uint32{}, c08LocalPath...)
	if !res.Internal {
		want = append([]uint32{L.AS}, want...)
	}
	var asp, as4 []byte
	hasASP := false
	for _, a := range attrs {
		hl := 3
		if a[0]&0x10 != 0 {
			hl = 4
		}
		switch a[1] {
		case 2:
			asp, hasASP = a[hl:], true
		case 17:
			as4 = a[hl:]
		}
	}
	if !hasASP {
		sc.bad(w, "sent-update-no-as-path", "route %s announced without AS_PATH", route)
		return
	}
	width := 2
	if res.FourOctet {
		width = 4
	}
	parse := func(v []byte, width int) ([]uint32, bool) {
		var out []uint32
		for p := 0; p < len(v); {
			if p+2 > len(v) {
				return nil, false
			}
			n := int(v[p+1])
			p += 2
			if p+n*width > len(v) {
				return nil, false
			}
			for i := 0; i < n; i++ {
				if width == 4 {
					out = append(out, binary.BigEndian.Uint32(v[p:p+4]))
				} else {
					out = append(out, uint32(binary.BigEndian.Uint16(v[p:p+2])))
				}
				p += width
			}
		}
		return out, true
	}
	got, ok := parse(asp, width)
	w.stat(fmt.Sprintf("sent-as-path-width=%d", width))
	if !ok {
		sc.bad(w, fmt.Sprintf("sent-as-path-width:want=%d", width), "route %s: AS_PATH [% x] is not a sequence of %d-octet AS numbers (4-octet capability: local announced, remote announced=%v)", route, asp, width, res.FourOctet)
		return
	}
	exp := append([]uint32{}, want...)
	if width == 2 {
		for i, a := range exp {
			if a > 65535 {
				exp[i] = rn.ASTrans
			}
		}
	}
	if fmt.Sprint(got) != fmt.Sprint(exp) {
		sc.bad(w, fmt.Sprintf("sent-as-path-content:width=%d", width), "route %s: AS_PATH read as %d-octet numbers is %v, want %v", route, width, got, exp)
		return
	}
	if width == 2 {
		g4, ok := parse(as4, 4)
		if !ok || fmt.Sprint(g4) != fmt.Sprint(want) {
			// RFC 6793 4.2.2: the AS4_PATH carries the 4-octet numbers (leading 2-octet-mappable ones may be omitted only by not being there at all)
			sc.bad(w, "sent-as4-path", "route %s towards a 2-octet peer: AS4_PATH is %v [% x], want %v", route, g4, as4, want)
		}
	} else if as4 != nil {
		sc.bad(w, "sent-as4-path-to-4-octet-peer", "route %s: AS4_PATH sent to a peer with which 4-octet AS numbers were negotiated", route)
	}
}

// cadence: with the session up and the remote side sending a KEEPALIVE every second for 2*KA+1 seconds
// and then falling silent, the daemon's KEEPALIVEs arrive exactly every KA seconds after establishment
// and the NOTIFICATION 4/0 exactly <hold> seconds after the last message it received. Returns whether
// the session is still up (negotiated hold time 0).
func (sc *c08Scenario) cadence(w *simWorld, b *simBot, res *rn.Result) bool {
	p := w.peer(b)
	te := w.now()
	n0 := len(b.rxAll())
	if res.Hold == 0 {
		w.advance(300 * time.Second)
		got := b.rxAll()[n0:]
		w.stat("cadence-hold0")
		if len(got) != 0 || p.State() != bgp.BGP_FSM_ESTABLISHED || !b.connected() {
			sc.bad(w, "hold-zero-not-silent", "negotiated hold time 0: in 300 silent seconds the daemon sent %v (first at +%ss), state %s", c08Names(got), c08SecOf(got, te), p.State())
			return p.State() == bgp.BGP_FSM_ESTABLISHED
		}
		return true
	}
	ka := time.Duration(math.Floor(res.KeepaliveSec)) * time.Second
	if ka < time.Second {
		ka = time.Second
	}
	hold := time.Duration(res.Hold) * time.Second
	n := int(2*ka/time.Second) + 1
	for i := 0; i < n; i++ {
		w.advance(time.Second)
		b.send(c08KeepaliveBytes())
		w.settle()
	}
	tl := w.now()
	w.advance(hold + time.Second)
	got := b.rxAll()[n0:]
	expiry := tl + hold
	var want []string
	for t := te + ka; t < expiry; t += ka {
		want = append(want, "KEEPALIVE@"+c08Sec(t-te))
	}
	tie := (expiry-te)%ka == 0
	want = append(want, "NOTIF 4/0@"+c08Sec(expiry-te))
	var have []string
	for _, m := range got {
		have = append(have, c08RxName(m)+"@"+c08Sec(m.At-te))
	}
	w.stat(fmt.Sprintf("cadence-hold=%d-ka=%s-configured-applies=%v", res.Hold, c08Sec(ka), res.KeepaliveCfg))
	match := fmt.Sprint(have) == fmt.Sprint(want)
	if !match && tie {
		// a keepalive tick and the hold expiry fall on the same instant: either order of the two timers is fine
		alt := append(append([]string{}, want[:len(want)-1]...), "KEEPALIVE@"+c08Sec(expiry-te), want[len(want)-1])
		match = fmt.Sprint(have) == fmt.Sprint(alt)
	}
	if !match {
		kind := "keepalive-cadence"
		if len(have) > 0 && len(want) > 0 && have[len(have)-1] != want[len(want)-1] {
			kind = "hold-expiry"
		}
		sc.bad(w, fmt.Sprintf("%s:configured-applies=%v", kind, res.KeepaliveCfg), "negotiated hold %d s, keepalive %v s (configured hold %d, configured keepalive %d): with the peer silent from +%ss the daemon sent %v, want %v (seconds after establishment)",
			res.Hold, res.KeepaliveSec, sc.cs.L.Hold, sc.cs.L.KA, c08Sec(tl-te), have, want)
	}
	if b.connected() || p.State() == bgp.BGP_FSM_ESTABLISHED {
		sc.bad(w, "hold-expiry-session-kept", "the hold timer (%d s) expired at +%ss, the session is still up (state %s)", res.Hold, c08Sec(expiry-te), p.State())
		return true
	}
	return false
}

func c08SecOf(rx []simRx, te time.Duration) string {
	if len(rx) == 0 {
		return "-"
	}
	return c08Sec(rx[0].At - te)
}

// large: a 5000-octet UPDATE is acceptable iff extended messages were negotiated; a 5000-octet KEEPALIVE never.
func (sc *c08Scenario) large(w *simWorld, b *simBot, res *rn.Result) {
	p := w.peer(b)
	if p.State() != bgp.BGP_FSM_ESTABLISHED {
		return
	}
	fmap := p.fsm.familyMap.Load().(map[bgp.Family]bgp.BGPAddPathMode)
	var raw []byte
	var u c08Upd
	if len(res.Families) > 0 {
		u = sc.botUpdate(res, fmap, res.Families[0], true)
		raw = c08UpdateBytes(u)
	} else {
		// no family in common: an UPDATE that carries attributes only
		attrs := c08Attr(0xc0|0x10, 250, make([]byte, 5000-19-4-4))
		body := append([]byte{0, 0, byte(len(attrs) >> 8), byte(len(attrs))}, attrs...)
		raw = append(c08Header(19+len(body), 2), body...)
	}
	if len(raw) != 5000 {
		panic(fmt.Sprintf("c08: large UPDATE is %d octets", len(raw)))
	}
	n0 := len(b.rxAll())
	b.send(raw)
	w.settle()
	got := c08Names(b.rxAll()[n0:])
	w.stat(fmt.Sprintf("large-update-acceptable=%v", res.MaxLen(2) >= 5000))
	if res.MaxLen(2) >= 5000 {
		if len(got) != 0 || p.State() != bgp.BGP_FSM_ESTABLISHED {
			sc.bad(w, "large-update-refused-although-negotiated", "extended messages negotiated (both announced capability 6): a 5000-octet UPDATE was answered with %v, state %s", got, p.State())
			return
		}
		if len(res.Families) > 0 {
			sc.checkAdjIn(w, p, u, "large")
		}
		// KEEPALIVE above 4096: never
		n0 = len(b.rxAll())
		b.send(append(c08Header(5000, 4), make([]byte, 5000-19)...))
		w.settle()
		got = c08Names(b.rxAll()[n0:])
		w.stat("large-keepalive")
		if fmt.Sprint(got) != "[NOTIF 1/2]" || p.State() == bgp.BGP_FSM_ESTABLISHED {
			sc.bad(w, "large-keepalive-accepted", "a 5000-octet KEEPALIVE must be refused with NOTIFICATION 1/2 even with extended messages negotiated; the daemon answered %v, state %s", got, p.State())
		}
		return
	}
	if fmt.Sprint(got) != "[NOTIF 1/2]" || p.State() == bgp.BGP_FSM_ESTABLISHED || b.connected() {
		sc.bad(w, "large-update-accepted-without-negotiation", "extended messages NOT negotiated (remote announced capability 6: %v): a 5000-octet UPDATE must be refused with NOTIFICATION 1/2; the daemon answered %v, state %s, connection open=%v",
			sc.remote.Ext, got, p.State(), b.connected())
	}
}

// bigOpen: an OPEN whose header announces 5000 octets.
func (sc *c08Scenario) bigOpen(w *simWorld, b *simBot, myAS uint16, cs c08Case, cap4 *uint32) {
	b.connect()
	w.settle()
	rx := b.rxAll()
	if len(rx) != 1 || rx[0].Type != 1 {
		return
	}
	good := c08OpenBytes(myAS, uint16(cs.R.Hold), c08RemoteID, c08RemoteCaps(cs.R, cap4), false)
	raw := append(append([]byte{}, good...), make([]byte, 5000-len(good))...)
	binary.BigEndian.PutUint16(raw[16:18], 5000)
	b.send(raw)
	w.settle()
	got := c08Names(b.rxAll()[1:])
	w.stat("large-open")
	p := w.peer(b)
	if fmt.Sprint(got) != "[NOTIF 1/2]" || p.State() == bgp.BGP_FSM_OPENCONFIRM || p.State() == bgp.BGP_FSM_ESTABLISHED {
		sc.bad(w, "large-open-accepted", "a 5000-octet OPEN must be refused with NOTIFICATION 1/2; the daemon answered %v, state %s", got, p.State())
	}
}

// ---------------------------------------------------------------------------------------------
// enumeration

// factor order of the session covering array
var c08SessionFactors = []string{"local families x add-path per family", "local hold-time", "local keepalive-interval", "local AS", "peer-as configured",
	"remote hold time", "remote AS form", "remote MP capabilities", "remote ADD-PATH tuples", "remote extended-message", "remote unknown capability"}

func c08SessionCase(row []int, holds []int) c08Case {
	fa := c08FamAP()[row[0]]
	return c08Case{
		L: c08Local{Fams: fa[0], AP4: fa[1], AP6: fa[2], Hold: c08LocalHolds[row[1]], KA: c08LocalKAs[row[2]], AS: c08LocalASs[row[3]], PeerAs: row[4] == 0},
		R: c08Remote{Hold: holds[row[5]], ASForm: row[6], MP: row[7], AP: row[8], Ext: row[9] == 1, Unk: row[10] == 1},
	}
}

// c08SessionCases: strength-t covering array over all eleven factors with the four acceptable remote
// hold times, plus a strength-2 array with the two refused hold times (a refused OPEN masks every other
// factor, so those rows must not count towards the t-way coverage of the others).
func c08SessionCases(t int) (cases []c08Case, info map[string]any) {
	famap := len(c08FamAP())
	dom := []int{famap, len(c08LocalHolds), len(c08LocalKAs), len(c08LocalASs), 2, 4, len(c08ASFormNames), len(c08MPNames), len(c08APNames), 2, 2}
	info = map[string]any{}
	seen := map[string]bool{}
	add := func(c c08Case) {
		k := fmt.Sprint(c)
		if !seen[k] {
			seen[k] = true
			cases = append(cases, c)
		}
	}
	full := 1
	for _, d := range dom {
		full *= d
	}
	if t >= len(dom) {
		// full product
		row := make([]int, len(dom))
		var rec func(i int)
		rec = func(i int) {
			if i == len(dom) {
				add(c08SessionCase(row, c08RemoteHolds[:4]))
				return
			}
			for v := 0; v < dom[i]; v++ {
				row[i] = v
				rec(i + 1)
			}
		}
		rec(0)
		info["accepting_rows"] = len(cases)
		info["accepting_t_way_combinations"] = full
	} else {
		rows, combos := c08Cover(dom, t)
		for _, r := range rows {
			add(c08SessionCase(r, c08RemoteHolds[:4]))
		}
		info["accepting_rows"] = len(rows)
		info["accepting_t_way_combinations"] = combos
	}
	dom2 := append([]int{}, dom...)
	dom2[5] = 2
	rows2, combos2 := c08Cover(dom2, 2)
	for _, r := range rows2 {
		add(c08SessionCase(r, c08RemoteHolds[4:]))
	}
	info["refusing_rows"] = len(rows2)
	info["refusing_pairs"] = combos2
	info["full_product_accepting"] = full
	// simplest first (fewest deviations from a plain configuration), so that the recorded instance of a
	// violation class is a simple one
	sort.SliceStable(cases, func(i, j int) bool { return c08Weight(cases[i]) < c08Weight(cases[j]) })
	return cases, info
}

func c08Weight(c c08Case) int {
	n := 0
	for _, b := range []bool{c.L.Fams != 1, c.L.AP4 != 0, c.L.AP6 != 0, c.L.Hold != 90, c.L.KA != 0, c.L.AS != 65000, !c.L.PeerAs,
		c.R.Hold != 10, c.R.ASForm != 0, c.R.MP != 1, c.R.AP != 0, c.R.Ext, c.R.Unk} {
		if b {
			n++
		}
	}
	return n
}

func TestVerif_C08_Session(t *testing.T) {
	r := vr.Start(t, "C08", "session")
	defer r.Finish()
	r.Rule = "one synctest bubble (real daemon, virtual time, scripted remote speaker sending hand-assembled bytes) per element of a strength-t covering array over 11 factors {local families x ADD-PATH mode per family (24), hold-time, keepalive-interval, local AS, peer-as configured or learnt | remote hold time, AS form, MP capability multiset, ADD-PATH tuples, extended-message, unknown capability}; every observable compared with the plain-Go model refnegotiate; non-trivial = distinct case that reached Established (all negotiation clauses applied) or was refused as the model demands"
	r.Assumptions = append(r.Assumptions,
		"passive peer only; one peer; no GR/LLGR capabilities (C12), no confederation",
		"keepalive cadence compared in whole seconds: floor(a third of the hold time), at least 1 s; the reported interval may be anywhere between that and the exact third",
		"conflicting ADD-PATH tuples for one family: RFC 7911 does not define which counts; the first, the last or the union are accepted and the daemon's choice is recorded",
		"what the local side announced for the 4-octet-AS and extended-message capabilities is read from the OPEN it sent",
		"goroutine interleavings inside one event are those Go produced with GOMAXPROCS=1 (schedule quantification is E-SCHED's)")
	if r.ReplayPath() != "" {
		var rp simReplay
		if err := r.LoadReplay(&rp); err != nil {
			t.Fatal(err)
		}
		simReplayOne(t, r, rp)
		return
	}
	strength := 3
	if vr.Thorough() {
		strength = 5
	}
	if s := os.Getenv("VERIF_C08_STRENGTH"); s != "" {
		strength, _ = strconv.Atoi(s)
	}
	t0 := time.Now()
	cases, info := c08SessionCases(strength)
	r.Bounds["strength"] = strength
	r.Bounds["factors"] = c08SessionFactors
	r.Bounds["factor_domains"] = map[string]any{"local_families_x_addpath": len(c08FamAP()), "local_hold": c08LocalHolds, "local_keepalive(0=default)": c08LocalKAs, "local_as": c08LocalASs,
		"peer_as": []string{"configured", "learnt"}, "remote_hold_accepting": c08RemoteHolds[:4], "remote_hold_refused": c08RemoteHolds[4:], "remote_as_form": c08ASFormNames,
		"remote_mp": c08MPNames, "remote_addpath": c08APNames, "remote_ext": 2, "remote_unknown_cap": 2}
	for k, v := range info {
		r.Bounds[k] = v
	}
	r.Bounds["cases"] = len(cases)
	t.Logf("strength %d: %d cases (%v), generated in %s", strength, len(cases), info, time.Since(t0).Round(time.Millisecond))

	workers := 16
	if s := os.Getenv("VERIF_SIM_WORKERS"); s != "" {
		if n, err := strconv.Atoi(s); err == nil && n > 0 {
			workers = n
		}
	}
	var jobs []simJob
	for i, c := range cases {
		arg, _ := json.Marshal(c)
		jobs = append(jobs, simJob{ID: i, Scenario: "c08", Arg: string(arg)})
	}
	outcomes := map[string]bool{}
	pool := &simPool{n: workers}
	results := make([]simOutcome, len(jobs))
	pool.runAll(jobs, func(o simOutcome) { results[o.job.ID] = o })
	// results are folded in case order so that the recorded first instance of a violation class is the simplest one
	for _, o := range results {
		r.Eval()
		cs := cases[o.job.ID]
		rp := simReplay{Scenario: "c08", Arg: o.job.Arg}
		if o.crash != "" {
			r.Violationf("C08:daemon-crash:"+simCrashSite(o.crash), rp, "%s: the daemon process died; stderr tail:\n%s", cs, simTail(o.crash, 3000))
			continue
		}
		if o.res.Panic != "" {
			r.Violationf("C08:panic:"+simCrashSite(o.res.Panic), rp, "%s: panic: %s", cs, simTail(o.res.Panic, 3000))
			continue
		}
		for _, v := range o.res.Viol {
			r.Violationf(v.Key, rp, "%s", v.What)
		}
		for k, n := range o.res.Stats {
			r.Outcomes[k] += int64(n)
		}
		if o.res.Stats["established"] > 0 || o.res.Stats["refused"] > 0 {
			r.NT(o.job.Arg)
		}
		outcomes[o.res.Key] = true
		if r.WantSample() && o.job.ID%211 == 0 {
			r.Sample(map[string]any{"case": cs.String(), "stats": o.res.Stats})
		}
	}
	r.Extra["distinct_session_outcomes"] = len(outcomes)
	if r.Outcomes["established"] == 0 || r.Outcomes["refused"] == 0 {
		t.Fatalf("ENGINE-ERROR vacuous: established=%d refused=%d", r.Outcomes["established"], r.Outcomes["refused"])
	}
	simConfirm(t, r, 5)
}
