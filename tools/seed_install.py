#!/usr/bin/env python3
"""seed_install.py: copy confirmed seeded changes from /tmp/mut/out into /verif/seeded/<id>/ with meta.json.
Reads /verif/seeded/catalogue.json (hand-maintained: what each change needs, which checks catch it)."""
import json, os, shutil, sys
cat = json.load(open('/verif/seeded/catalogue.json'))
for e in cat:
    pid, v = e['id'].split('-')
    src = f'/tmp/mut/out/{pid}/{v}'
    dst = f'/verif/seeded/{e["id"]}'
    if os.path.isdir(src):
        os.makedirs(dst, exist_ok=True)
        for f in ('patch.diff', 'demo_test.go', 'notes.md'):
            if os.path.exists(os.path.join(src, f)):
                shutil.copy(os.path.join(src, f), os.path.join(dst, f))
    if not os.path.isdir(dst):
        print('missing', e['id']); continue
    meta = dict(e)
    meta['files'] = sorted(os.listdir(dst))
    meta['how_confirmed'] = ("scratch worktree of /repo HEAD: `git apply patch.diff`, `go build ./...`; demonstration copied into its package and run "
        "with the change (fails) and without it (passes) by /verif/tools/seed_eval.sh; the repository's own suites run with the change by "
        "/verif/tools/seed_suite.sh (`go test ./internal/pkg/table/ ./pkg/packet/... ./pkg/apiutil/ ./pkg/config/... ./pkg/zebra/` and "
        "`go test ./pkg/server/` under a machine-wide lock); checks run with `VERIF_REPO=<worktree> ./check <id> --no-evidence`")
    json.dump(meta, open(os.path.join(dst, 'meta.json'), 'w'), indent=1)
print('installed', len(cat))
