package server

// C11 part "session" — the size limit is the limit OF THE SESSION the messages are written to.
// Parts "lists" and "boundary" decide the packing function for a given limit; which limit a session's
// send loop hands to it is session state (RFC 8654 negotiation result), recomputed at every
// establishment. Scenario "c11sess": a source peer (extended messages negotiated, always up) and a
// receiver whose sessions come and go with or without the Extended Message capability, while the source
// announces / withdraws (a) 1200 prefixes sharing one attribute set (4800 octets of NLRI: one message
// under the 65535 limit, at least two under 4096) and (b) one route whose attributes alone exceed 4096
// octets (fits only an extended session: must be skipped for a 4096 session without disturbing the
// others, the sender or the session). BFS over all event histories up to the stated depth; in every
// state: every message the receiver got in its current session fits that session's limit, the session
// is still up, and folding the messages gives exactly the routes that fit the limit.

import (
	"encoding/binary"
	"fmt"
	"net/netip"
	"testing"
	"time"

	"github.com/osrg/gobgp/v4/internal/verif/vr"
	"github.com/osrg/gobgp/v4/pkg/packet/bgp"
)

const (
	c11sBurstN = 1200
	c11sBig    = "10.200.0.0/24"
)

type c11sScenario struct {
	src, dst   *simBot
	burst, big bool
	dstUp      bool
	dstExt     bool
	seq        int // messages of the receiver's current session already judged
}

func init() {
	simScenarios["c11sess"] = func(arg string) simScenario { return &c11sScenario{} }
}

func (sc *c11sScenario) ForceDrain() bool { return true }

func (sc *c11sScenario) Setup(w *simWorld) {
	w.start()
	sc.src = w.addBot(simBotSpec{Name: "src", IP: [4]byte{10, 0, 0, 1}, AS: 65001, RouterID: [4]byte{1, 1, 1, 1}, Families: []bgp.Family{bgp.RF_IPv4_UC}, ExtMsg: true})
	sc.dst = w.addBot(simBotSpec{Name: "dst", IP: [4]byte{10, 0, 0, 2}, AS: 65002, RouterID: [4]byte{1, 1, 1, 2}, Families: []bgp.Family{bgp.RF_IPv4_UC}})
	w.advance(time.Second)
	if !sc.src.handshake() {
		panic("c11sess setup: source session did not establish")
	}
	w.advance(time.Second)
	if !w.peer(sc.src).fsm.extendedMessage.Load() {
		panic("c11sess setup: extended messages not negotiated with the source")
	}
}

func (sc *c11sScenario) Enabled(w *simWorld) []simEvent {
	var ev []simEvent
	add := func(op string) { ev = append(ev, simEvent{Op: op}) }
	if sc.dstUp {
		add("dst-down")
	} else {
		add("dst-up-ext")
		add("dst-up-noext")
	}
	if sc.burst {
		add("burst-wd")
	} else {
		add("burst")
	}
	if sc.big {
		add("big-wd")
	} else {
		add("big")
	}
	return ev
}

func c11sAttrs(big bool) []bgp.PathAttributeInterface {
	nh, _ := bgp.NewPathAttributeNextHop(netip.MustParseAddr("10.0.0.1"))
	attrs := []bgp.PathAttributeInterface{bgp.NewPathAttributeOrigin(0),
		bgp.NewPathAttributeAsPath([]bgp.AsPathParamInterface{bgp.NewAs4PathParam(bgp.BGP_ASPATH_ATTR_TYPE_SEQ, []uint32{65001})}), nh}
	if big {
		var cs []uint32
		for i := 0; i < 1100; i++ {
			cs = append(cs, uint32(65001)<<16|uint32(i+1))
		}
		attrs = append(attrs, bgp.NewPathAttributeCommunities(cs))
	}
	return attrs
}

func c11sBurstPrefix(i int) netip.Prefix {
	return netip.PrefixFrom(netip.AddrFrom4([4]byte{10, 100 + byte(i>>8), byte(i), 0}), 24)
}

func (sc *c11sScenario) Apply(w *simWorld, e simEvent) {
	nlris := func(big bool) []bgp.PathNLRI {
		var out []bgp.PathNLRI
		if big {
			n, _ := bgp.NewIPAddrPrefix(netip.MustParsePrefix(c11sBig))
			return []bgp.PathNLRI{{NLRI: n}}
		}
		for i := 0; i < c11sBurstN; i++ {
			n, _ := bgp.NewIPAddrPrefix(c11sBurstPrefix(i))
			out = append(out, bgp.PathNLRI{NLRI: n})
		}
		return out
	}
	switch e.Op {
	case "dst-up-ext", "dst-up-noext":
		sc.dst.spec.ExtMsg = e.Op == "dst-up-ext"
		w.advance(10 * time.Second) // idle-hold time of the previous session
		if !sc.dst.handshake() {
			panic("c11sess: receiver session did not establish")
		}
		sc.dstUp, sc.dstExt, sc.seq = true, sc.dst.spec.ExtMsg, 0
	case "dst-down":
		sc.dst.disconnect()
		sc.dstUp = false
	case "burst":
		sc.src.sendMsg(bgp.NewBGPUpdateMessage(nil, c11sAttrs(false), nlris(false)))
		sc.burst = true
	case "burst-wd":
		sc.src.sendMsg(bgp.NewBGPUpdateMessage(nlris(false), nil, nil))
		sc.burst = false
	case "big":
		sc.src.sendMsg(bgp.NewBGPUpdateMessage(nil, c11sAttrs(true), nlris(true)))
		sc.big = true
	case "big-wd":
		sc.src.sendMsg(bgp.NewBGPUpdateMessage(nlris(true), nil, nil))
		sc.big = false
	default:
		panic("c11sess: unknown event " + e.Op)
	}
	w.settle()
	w.advance(time.Second)
}

func (sc *c11sScenario) Check(w *simWorld, last *simEvent) {
	if last == nil {
		return
	}
	// the source must be unaffected by whatever happens on the receiver's side
	if ps := w.peer(sc.src); ps == nil || ps.State() != bgp.BGP_FSM_ESTABLISHED || !sc.src.connected() {
		w.violate("C11:session:source-session-disturbed:"+last.Op, "event %s: the source's session is no longer established", last.Op)
		return
	}
	if n := len(w.adjInDump(w.peer(sc.src))); n != sc.wantCount(true) {
		w.violate("C11:session:source-routes:"+last.Op, "event %s: %d routes of the source in its Adj-RIB-In, expected %d", last.Op, n, sc.wantCount(true))
	}
	if !sc.dstUp {
		return
	}
	limit := 4096
	if sc.dstExt {
		limit = 65535
	}
	tag := fmt.Sprintf("limit=%d", limit)
	p := w.peer(sc.dst)
	if p == nil || p.State() != bgp.BGP_FSM_ESTABLISHED || !sc.dst.connected() {
		w.violate("C11:session:receiver-session-lost:"+tag+":"+last.Op, "event %s: the receiver's session (%s) did not survive; messages received: %d", last.Op, tag, len(sc.dst.rxAll()))
		return
	}
	if neg := p.fsm.extendedMessage.Load(); neg != sc.dstExt {
		w.stat("negotiation-flag-differs") // C08's subject; the size oracle below is what C11 states
	}
	all := sc.dst.rxAll()
	maxLen := 0
	for _, rx := range all[sc.seq:] {
		l := int(binary.BigEndian.Uint16(rx.Raw[16:18]))
		if l > maxLen {
			maxLen = l
		}
		if l > limit {
			w.violate("C11:session:message-exceeds-session-limit:"+tag, "event %s: the receiver's session has %s, the daemon wrote a %d-octet message (type %d) to it", last.Op, tag, l, rx.Type)
		}
		if rx.Err != "" && l <= limit {
			w.violate("C11:session:message-unparsable:"+tag, "event %s: a %d-octet message does not parse under the session's options: %s", last.Op, l, rx.Err)
		}
	}
	sc.seq = len(all)
	for _, rx := range sc.dst.takeGroup() {
		simFold(sc.dst.view, rx.Msg)
	}
	want := sc.wantCount(sc.dstExt)
	w.stat(fmt.Sprintf("%s burst=%v big=%v", tag, sc.burst, sc.big))
	if maxLen > 4096 {
		w.stat("message above 4096 on an extended session")
	}
	if len(sc.dst.view) != want {
		w.violate(fmt.Sprintf("C11:session:receiver-view:%s:burst=%v:big=%v", tag, sc.burst, sc.big),
			"event %s: the receiver (%s) holds %d routes after applying what it was sent, expected %d (burst announced=%v, oversize-for-4096 route announced=%v)", last.Op, tag, len(sc.dst.view), want, sc.burst, sc.big)
		return
	}
	// every prefix carries its own route's attributes
	bigKey := ""
	if n, err := bgp.NewIPAddrPrefix(netip.MustParsePrefix(c11sBig)); err == nil {
		bigKey = simRouteKey(bgp.RF_IPv4_UC, n, 0)
	}
	var burstCanon string
	for k, v := range sc.dst.view {
		isBig := len(v) > 4000
		if (k == bigKey) != isBig {
			w.violate("C11:session:attributes-of-another-route:"+tag, "event %s: %s carries the attribute set of the other route class", last.Op, k)
			break
		}
		if k != bigKey {
			if burstCanon == "" {
				burstCanon = v
			} else if v != burstCanon {
				w.violate("C11:session:attributes-differ-within-burst:"+tag, "event %s: prefixes announced with one attribute set arrive with different ones", last.Op)
				break
			}
		}
	}
}

// wantCount: routes the receiver must hold (ext: under the 65535 limit; otherwise the 4096 limit).
func (sc *c11sScenario) wantCount(ext bool) int {
	n := 0
	if sc.burst {
		n += c11sBurstN
	}
	if sc.big && ext {
		n++
	}
	return n
}

func (sc *c11sScenario) Key(w *simWorld) string {
	// the negotiation result is kept in the FSM object across sessions: part of the state (a key without
	// it would merge "down after an extended session" with "never up", the very place a stale value hides)
	flag := false
	if p := w.peer(sc.dst); p != nil {
		flag = p.fsm.extendedMessage.Load()
	}
	return fmt.Sprintf("burst=%v big=%v up=%v ext=%v flag=%v|%s", sc.burst, sc.big, sc.dstUp, sc.dstExt, flag, w.stateKey())
}

func TestVerif_C11_Session(t *testing.T) {
	r := vr.Start(t, "C11", "session")
	defer r.Finish()
	r.Rule = "explicit-state BFS over event histories {receiver session up with / without the Extended Message capability, receiver session down, source announces / withdraws 1200 prefixes sharing one attribute set, source announces / withdraws one route whose attributes exceed 4096 octets} on the real daemon in virtual time; in every state: every message written to the receiver fits the limit of ITS CURRENT session, both sessions stay up, folding the messages yields exactly the routes that fit the limit, each with its own attributes; non-trivial = distinct (limit, announced sets) outcome"
	r.Assumptions = append(r.Assumptions, "the source always has extended messages; 'reported' (the log record for a skipped route) is not observed here (part boundary does)")
	if r.ReplayPath() != "" {
		var rp simReplay
		if err := r.LoadReplay(&rp); err != nil {
			t.Fatal(err)
		}
		simReplayOne(t, r, rp)
		return
	}
	depth := 7
	budget := 3 * time.Minute
	if vr.Thorough() {
		depth, budget = 10, 15*time.Minute
	}
	simExplore(t, r, simExploreCfg{Scenario: "c11sess", Arg: "", Depth: depth, Budget: budget})
	if len(r.Violations) == 0 {
		for _, k := range []string{"limit=4096 burst=true big=true", "limit=65535 burst=true big=true", "message above 4096 on an extended session"} {
			if r.Outcomes[k] == 0 {
				t.Fatalf("ENGINE-ERROR vacuous exploration: outcome %q never seen: %v", k, r.Outcomes)
			}
		}
	}
	simConfirm(t, r, 5)
}
