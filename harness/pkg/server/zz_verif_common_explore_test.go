package server

// Explicit-state exploration over event histories (E-SIM): a state is the history that reaches it;
// successors are produced by replaying the history on a fresh daemon in a fresh synctest bubble plus
// one event. A coordinator process runs the BFS and de-duplicates on the canonical state key; worker
// processes (GOMAXPROCS=1, asyncpreemptoff) execute histories.

import (
	"sync/atomic"
	"syscall"
	"bufio"
	"crypto/sha256"
	"encoding/hex"
	"encoding/json"
	"fmt"
	"os"
	"os/exec"
	"runtime/debug"
	"sort"
	"strconv"
	"strings"
	"sync"
	"testing"
	"testing/synctest"
	"time"

	"github.com/osrg/gobgp/v4/internal/verif/vr"
)

type simEvent struct {
	Op  string `json:"op"`
	Bot int    `json:"bot,omitempty"`
	A   int    `json:"a,omitempty"`
	B   int    `json:"b,omitempty"`
	C   int    `json:"c,omitempty"`
	S   string `json:"s,omitempty"`
}

func (e simEvent) String() string {
	s := e.Op
	if e.Bot != 0 || strings.Contains(e.Op, "bot") || true {
		s += fmt.Sprintf("(b%d", e.Bot)
		if e.A != 0 || e.B != 0 || e.C != 0 {
			s += fmt.Sprintf(",%d,%d,%d", e.A, e.B, e.C)
		}
		if e.S != "" {
			s += "," + e.S
		}
		s += ")"
	}
	return s
}

func simHistString(h []simEvent) string {
	p := make([]string, len(h))
	for i, e := range h {
		p[i] = e.String()
	}
	return strings.Join(p, " ")
}

// simScenario is one closed system: configuration + event alphabet + oracle.
type simScenario interface {
	// Setup builds the world (server started, bots added, initial sessions) inside the bubble.
	Setup(w *simWorld)
	// Enabled lists the events that may be applied in the current state (deterministic order,
	// simplest first).
	Enabled(w *simWorld) []simEvent
	// Apply performs one event and settles.
	Apply(w *simWorld, e simEvent)
	// Check evaluates the oracle in the current quiescent state (last = the event just applied, nil
	// for the initial state); violations via w.violate.
	Check(w *simWorld, last *simEvent)
	// Key is the canonical state.
	Key(w *simWorld) string
	// ForceDrain: whether teardown force-drains peer queues (false only for the C20 leak oracle).
	ForceDrain() bool
}

var simScenarios = map[string]func(arg string) simScenario{}

type simJob struct {
	ID       int        `json:"id"`
	Scenario string     `json:"scenario"`
	Arg      string     `json:"arg"`
	Hist     []simEvent `json:"hist"`
	WantKey  bool       `json:"want_key,omitempty"` // return the full key text (debugging / replay)
}

type simResult struct {
	ID      int               `json:"id"`
	Key     string            `json:"key"` // sha256 of canonical state
	KeyText string            `json:"key_text,omitempty"`
	Enabled []simEvent        `json:"enabled"`
	Viol    []simViolation    `json:"viol,omitempty"`
	Stats   map[string]int    `json:"stats,omitempty"`
	Panic   string            `json:"panic,omitempty"`
	WallMS  int64             `json:"wall_ms"`
	Extra   map[string]string `json:"extra,omitempty"`
}

// simExecute runs one history in a fresh bubble in this process.
func simExecute(t *testing.T, job simJob) (res simResult) {
	res.ID = job.ID
	start := time.Now()
	mk, ok := simScenarios[job.Scenario]
	if !ok {
		res.Panic = "unknown scenario " + job.Scenario
		return
	}
	sc := mk(job.Arg)
	synctest.Test(t, func(t *testing.T) {
		w := &simWorld{t: t}
		defer func() {
			if r := recover(); r != nil {
				res.Panic = fmt.Sprintf("%v\n%s", r, debug.Stack())
			}
			func() {
				defer func() {
					if r := recover(); r != nil && res.Panic == "" {
						res.Panic = fmt.Sprintf("teardown: %v\n%s", r, debug.Stack())
					}
				}()
				if w.s != nil {
					w.stop(sc.ForceDrain())
				}
			}()
		}()
		sc.Setup(w)
		var last *simEvent
		for i := range job.Hist {
			e := job.Hist[i]
			sc.Apply(w, e)
			last = &e
			// the oracle is evaluated at every state of the history only when asked to (replay);
			// in BFS every prefix is its own job, so only the final state needs checking.
			if i < len(job.Hist)-1 && os.Getenv("VERIF_SIM_CHECK_ALL") != "" {
				sc.Check(w, last)
			}
		}
		sc.Check(w, last)
		kt := sc.Key(w)
		h := sha256.Sum256([]byte(kt))
		res.Key = hex.EncodeToString(h[:12])
		if job.WantKey {
			res.KeyText = kt
		}
		res.Enabled = sc.Enabled(w)
		res.Viol = w.viol
		res.Stats = w.stats
	})
	res.WallMS = time.Since(start).Milliseconds()
	return
}

// TestVerif_SimWorker is the worker loop: jobs on fd 3, results on fd 4 (JSON lines).
func TestVerif_SimWorker(t *testing.T) {
	if os.Getenv("VERIF_SIM_WORKER") == "" {
		t.Skip("worker only")
	}
	in := bufio.NewReaderSize(os.NewFile(3, "jobs"), 1<<20)
	out := os.NewFile(4, "results")
	enc := json.NewEncoder(out)
	for {
		line, err := in.ReadBytes('\n')
		if len(line) > 0 {
			var job simJob
			if e := json.Unmarshal(line, &job); e != nil {
				t.Fatalf("bad job: %v", e)
			}
			// journal the job so that a daemon crash can be attributed
			fmt.Fprintf(os.Stderr, "SIMJOB %d %s\n", job.ID, simHistString(job.Hist))
			res := simExecute(t, job)
			if e := enc.Encode(&res); e != nil {
				t.Fatalf("cannot write result: %v", e)
			}
		}
		if err != nil {
			return
		}
	}
}

// ---------------------------------------------------------------------------------------------
// coordinator

type simWorkerProc struct {
	cmd    *exec.Cmd
	jobs   *os.File
	res    *bufio.Reader
	resF   *os.File
	stderr *strings.Builder
	mu     sync.Mutex
	hung   bool
}

func simHangLimit() time.Duration {
	if v := os.Getenv("VERIF_SIM_HANG_LIMIT"); v != "" {
		if d, err := time.ParseDuration(v); err == nil && d > 0 {
			return d
		}
	}
	if simHangSeen.Load() {
		return 30 * time.Second // once a hang has been seen, its siblings and the confirmation runs need not wait as long
	}
	return 90 * time.Second
}

var simHangSeen atomic.Bool

const simHangMark = "VERIF-HANG: the worker gave no result within the limit; goroutine dump follows\n"

func simStartWorker() (*simWorkerProc, error) {
	jr, jw, err := os.Pipe()
	if err != nil {
		return nil, err
	}
	rr, rw, err := os.Pipe()
	if err != nil {
		return nil, err
	}
	cmd := exec.Command(os.Args[0], "-test.run=^TestVerif_SimWorker$", "-test.timeout=0")
	cmd.Env = append(os.Environ(), "VERIF_SIM_WORKER=1", "GOMAXPROCS=1", "GODEBUG=asyncpreemptoff=1", "VERIF_OUT=")
	cmd.ExtraFiles = []*os.File{jr, rw}
	sb := &strings.Builder{}
	cmd.Stderr = &simTailWriter{sb: sb}
	cmd.Stdout = &simTailWriter{sb: sb}
	if err := cmd.Start(); err != nil {
		return nil, err
	}
	jr.Close()
	rw.Close()
	return &simWorkerProc{cmd: cmd, jobs: jw, res: bufio.NewReaderSize(rr, 1<<20), resF: rr, stderr: sb}, nil
}

type simTailWriter struct {
	mu sync.Mutex
	sb *strings.Builder
}

func (t *simTailWriter) Write(b []byte) (int, error) {
	t.mu.Lock()
	defer t.mu.Unlock()
	if t.sb.Len() > 1<<20 {
		s := t.sb.String()
		t.sb.Reset()
		t.sb.WriteString(s[len(s)-(1<<18):])
	}
	t.sb.Write(b)
	return len(b), nil
}

func (p *simWorkerProc) run(job simJob) (simResult, error) {
	b, _ := json.Marshal(job)
	b = append(b, '\n')
	if _, err := p.jobs.Write(b); err != nil {
		return simResult{}, err
	}
	// watchdog: a daemon dead-locked on a mutex never lets synctest.Wait return (a goroutine blocked on a
	// sync.Mutex is not "durably blocked"), so the worker would sit there for ever. No answer within the
	// limit => SIGQUIT (the Go runtime dumps every goroutine to stderr and exits) and the job is a hang.
	type rd struct {
		line []byte
		err  error
	}
	ch := make(chan rd, 1)
	go func() {
		l, e := p.res.ReadBytes('\n')
		ch <- rd{l, e}
	}()
	var line []byte
	select {
	case x := <-ch:
		if x.err != nil {
			return simResult{}, x.err
		}
		line = x.line
	case <-time.After(simHangLimit()):
		p.hung = true
		simHangSeen.Store(true)
		p.cmd.Process.Signal(syscall.SIGQUIT)
		select {
		case <-ch:
		case <-time.After(20 * time.Second):
		}
		return simResult{}, fmt.Errorf("no result within %s", simHangLimit())
	}
	var r simResult
	if err := json.Unmarshal(line, &r); err != nil {
		return simResult{}, err
	}
	return r, nil
}

func (p *simWorkerProc) kill() string {
	p.jobs.Close()
	p.cmd.Process.Kill()
	p.cmd.Wait()
	p.resF.Close()
	s := p.stderr.String()
	lim := 6000
	if p.hung {
		lim = 200000
	}
	if len(s) > lim {
		s = s[len(s)-lim:]
	}
	return s
}

// simPool executes jobs on N worker processes; a worker that dies is replaced and the job retried.
type simPool struct {
	n int
}

type simOutcome struct {
	job   simJob
	res   simResult
	crash string // non-empty: the worker died on this job every time (stderr tail)
	log   string
}

func (sp *simPool) runAll(jobs []simJob, fn func(simOutcome)) {
	ch := make(chan simJob)
	var wg sync.WaitGroup
	var mu sync.Mutex
	for i := 0; i < sp.n; i++ {
		wg.Add(1)
		go func() {
			defer wg.Done()
			var p *simWorkerProc
			defer func() {
				if p != nil {
					p.kill()
				}
			}()
			for job := range ch {
				var out simOutcome
				out.job = job
				crashes := 0
				for {
					if p == nil {
						var err error
						p, err = simStartWorker()
						if err != nil {
							out.crash = "cannot start worker: " + err.Error()
							break
						}
					}
					r, err := p.run(job)
					if err == nil {
						out.res = r
						if os.Getenv("VERIF_SIM_LOG") != "" {
							out.log = p.stderr.String()
						}
						break
					}
					hung := p.hung
					tail := p.kill()
					p = nil
					crashes++
					if hung {
						tail = simHangMark + tail
					}
					if crashes >= 3 || (hung && crashes >= 2) {
						out.crash = tail
						break
					}
				}
				mu.Lock()
				fn(out)
				mu.Unlock()
			}
		}()
	}
	for _, j := range jobs {
		ch <- j
	}
	close(ch)
	wg.Wait()
}

type simExploreCfg struct {
	Scenario string
	Arg      string
	Depth    int
	Budget   time.Duration // wall budget for this scenario; when exceeded the BFS stops after the current level
	MaxLevel int           // cap on jobs per level (0 = none)
}

type simStateRec struct {
	hist []simEvent
}

// simExplore runs the BFS and records everything in r. Returns states, transitions.
func simExplore(t *testing.T, r *vr.Report, cfg simExploreCfg) {
	workers := 16
	if s := os.Getenv("VERIF_SIM_WORKERS"); s != "" {
		if n, err := strconv.Atoi(s); err == nil && n > 0 {
			workers = n
		}
	}
	pool := &simPool{n: workers}
	start := time.Now()
	seen := map[string]bool{}
	type st struct {
		hist    []simEvent
		enabled []simEvent
	}
	var frontier []st
	label := cfg.Scenario
	if cfg.Arg != "" {
		label += "[" + cfg.Arg + "]"
	}
	handle := func(o simOutcome) (key string, ok bool) {
		r.Eval()
		r.Transitions++
		if o.crash != "" {
			site := simCrashSite(o.crash)
			r.Violationf("daemon-crash:"+label+":"+site, simReplay{cfg.Scenario, cfg.Arg, o.job.Hist},
				"%s: the daemon process died on history [%s]; stderr tail:\n%s", label, simHistString(o.job.Hist), simTail(o.crash, 3000))
			return "", false
		}
		if o.res.Panic != "" {
			site := simCrashSite(o.res.Panic)
			r.Violationf("panic:"+label+":"+site, simReplay{cfg.Scenario, cfg.Arg, o.job.Hist},
				"%s: panic on history [%s]: %s", label, simHistString(o.job.Hist), simTail(o.res.Panic, 3000))
			return "", false
		}
		for _, v := range o.res.Viol {
			r.Violationf(v.Key, simReplay{cfg.Scenario, cfg.Arg, o.job.Hist}, "%s: history [%s]: %s", label, simHistString(o.job.Hist), v.What)
		}
		for k, n := range o.res.Stats {
			r.Outcomes[k] += int64(n)
		}
		return o.res.Key, true
	}
	// initial state
	var init simOutcome
	pool2 := &simPool{n: 1}
	pool2.runAll([]simJob{{ID: 0, Scenario: cfg.Scenario, Arg: cfg.Arg}}, func(o simOutcome) { init = o })
	k, ok := handle(init)
	if !ok {
		r.Cap(label + ": initial state failed")
		return
	}
	seen[k] = true
	r.States++
	r.NT(label + "|" + k)
	frontier = []st{{nil, init.res.Enabled}}
	if r.WantSample() {
		r.Sample(map[string]any{"scenario": label, "history": "", "enabled": len(init.res.Enabled)})
	}
	completed := 0
	for depth := 1; depth <= cfg.Depth && len(frontier) > 0; depth++ {
		if cfg.Budget > 0 && time.Since(start) > cfg.Budget {
			r.Cap(fmt.Sprintf("%s: wall budget %s reached after completing depth %d (frontier %d states not expanded)", label, cfg.Budget, completed, len(frontier)))
			break
		}
		var jobs []simJob
		for _, s := range frontier {
			for _, e := range s.enabled {
				h := append(append([]simEvent{}, s.hist...), e)
				jobs = append(jobs, simJob{ID: len(jobs), Scenario: cfg.Scenario, Arg: cfg.Arg, Hist: h})
			}
		}
		if cfg.MaxLevel > 0 && len(jobs) > cfg.MaxLevel {
			r.Cap(fmt.Sprintf("%s: level %d has %d transitions, cap %d: depth %d fully covered", label, depth, len(jobs), cfg.MaxLevel, completed))
			break
		}
		type nx struct {
			id  int
			key string
			st  st
		}
		var next []nx
		pool.runAll(jobs, func(o simOutcome) {
			k, ok := handle(o)
			if !ok {
				return
			}
			next = append(next, nx{o.job.ID, k, st{o.job.Hist, o.res.Enabled}})
		})
		// deterministic order: by job id (results arrive in any order)
		sort.Slice(next, func(i, j int) bool { return next[i].id < next[j].id })
		frontier = frontier[:0]
		for _, n := range next {
			if seen[n.key] {
				continue
			}
			seen[n.key] = true
			r.States++
			r.NT(label + "|" + n.key)
			frontier = append(frontier, n.st)
			if r.WantSample() && depth >= 2 {
				r.Sample(map[string]any{"scenario": label, "history": simHistString(n.st.hist)})
			}
		}
		completed = depth
		if simHangSeen.Load() {
			// every history that reaches a dead-locked daemon costs the watchdog limit in real time:
			// report what was found and stop this exploration at the level where it appeared
			r.Cap(fmt.Sprintf("%s: a hang was found at depth %d; deeper levels were not explored", label, depth))
			break
		}
		t.Logf("%s depth %d: transitions=%d new states=%d total states=%d elapsed=%s", label, depth, len(jobs), len(frontier), r.States, time.Since(start).Round(time.Millisecond))
	}
	r.Bounds[label+".depth_completed"] = completed
	r.Bounds[label+".depth_bound"] = cfg.Depth
}

type simReplay struct {
	Scenario string     `json:"scenario"`
	Arg      string     `json:"arg"`
	Hist     []simEvent `json:"hist"`
}

func simTail(s string, n int) string {
	if len(s) > n {
		return s[len(s)-n:]
	}
	return s
}

// simCrashSite extracts the first gobgp frame of a panic trace as a stable signature.
func simCrashSite(trace string) string {
	lines := strings.Split(trace, "\n")
	if strings.HasPrefix(trace, simHangMark) {
		// goroutines of the bubble blocked in a lock acquisition: name the first frame of the daemon
		set := map[string]bool{}
		for i, l := range lines {
			if !strings.HasPrefix(l, "goroutine ") || !strings.Contains(l, "synctest bubble") {
				continue
			}
			if !(strings.Contains(l, "sync.Mutex.Lock") || strings.Contains(l, "sync.RWMutex") || strings.Contains(l, "semacquire")) {
				continue
			}
			for k := i + 1; k < len(lines) && k < i+16; k += 2 {
				g := strings.TrimSpace(lines[k])
				if j := strings.LastIndex(g, "("); j > 0 {
					g = g[:j]
				}
				if g != "" && !strings.HasPrefix(g, "runtime.") && !strings.HasPrefix(g, "internal/") && !strings.HasPrefix(g, "sync.") && !strings.HasPrefix(g, "time.") {
					set[g] = true
					break
				}
			}
		}
		var fs []string
		for f := range set {
			if i := strings.LastIndex(f, "/"); i >= 0 {
				f = f[i+1:]
			}
			fs = append(fs, f)
		}
		sort.Strings(fs)
		if len(fs) > 4 {
			fs = fs[:4]
		}
		return "hang:blocked-on-lock-in:" + strings.Join(fs, "+")
	}
	// synctest's end-of-bubble verdict: goroutines started in the bubble are still blocked
	if strings.Contains(trace, "blocked goroutines remain") {
		set := map[string]bool{}
		for i, l := range lines {
			if strings.HasPrefix(l, "goroutine ") && strings.Contains(l, "synctest bubble") && i+1 < len(lines) {
				f := strings.TrimSpace(lines[i+1])
				if j := strings.LastIndex(f, "("); j > 0 {
					f = f[:j]
				}
				// the frame where it is blocked is runtime-ish for selects; take the first non-runtime frame
				for k := i + 1; k < len(lines) && k < i+12; k += 2 {
					g := strings.TrimSpace(lines[k])
					if j := strings.LastIndex(g, "("); j > 0 {
						g = g[:j]
					}
					if g != "" && !strings.HasPrefix(g, "runtime.") && !strings.HasPrefix(g, "internal/") && !strings.HasPrefix(g, "sync.") && !strings.HasPrefix(g, "time.") {
						f = g
						break
					}
				}
				set[f] = true
			}
		}
		var fs []string
		for f := range set {
			fs = append(fs, f)
		}
		sort.Strings(fs)
		return "goroutine-leak:" + strings.Join(fs, "+")
	}
	inPanic := false
	for _, l := range lines {
		if strings.HasPrefix(l, "panic:") || strings.HasPrefix(l, "fatal error:") || strings.Contains(l, "runtime/debug.Stack") {
			inPanic = true
			continue
		}
		if !inPanic {
			continue
		}
		l = strings.TrimSpace(l)
		if strings.HasPrefix(l, "github.com/osrg/gobgp/v4/") && !strings.Contains(l, "zz_verif") && !strings.Contains(l, "sim") {
			if i := strings.Index(l, "("); i > 0 {
				l = l[:i]
			}
			return strings.TrimPrefix(l, "github.com/osrg/gobgp/v4/")
		}
	}
	return "unknown-site"
}

// simReplayOne re-executes one recorded history in-process with the oracle evaluated at every state
// (used by --replay and by the 5x confirmation of violations).
func simReplayOne(t *testing.T, r *vr.Report, rp simReplay) {
	os.Setenv("VERIF_SIM_CHECK_ALL", "1")
	label := rp.Scenario
	if rp.Arg != "" {
		label += "[" + rp.Arg + "]"
	}
	pool := &simPool{n: 1}
	pool.runAll([]simJob{{ID: 0, Scenario: rp.Scenario, Arg: rp.Arg, Hist: rp.Hist, WantKey: true}}, func(o simOutcome) {
		r.Eval()
		if o.crash != "" {
			r.Violationf("daemon-crash:"+label+":"+simCrashSite(o.crash), rp, "daemon died: %s", simTail(o.crash, 3000))
			return
		}
		if o.res.Panic != "" {
			r.Violationf("panic:"+label+":"+simCrashSite(o.res.Panic), rp, "panic: %s", simTail(o.res.Panic, 3000))
			return
		}
		for _, v := range o.res.Viol {
			r.Violationf(v.Key, rp, "history [%s]: %s", simHistString(rp.Hist), v.What)
		}
		t.Logf("final state:\n%s", o.res.KeyText)
		if os.Getenv("VERIF_SIM_LOG") != "" {
			t.Logf("worker output:\n%s", o.log)
		}
	})
}

// simConfirm re-runs every recorded violation n times; violations that do not reproduce every time
// are moved to "unstable" (reported in the evidence, never as a VIOLATION).
func simConfirm(t *testing.T, r *vr.Report, n int) {
	if len(r.Violations) == 0 {
		return
	}
	stable := r.Violations[:0:0]
	unstable := []string{}
	for _, v := range r.Violations {
		rp, ok := v.Replay.(simReplay)
		if !ok {
			stable = append(stable, v)
			continue
		}
		hits := 0
		n := n
		if strings.Contains(v.Key, ":hang:") && n > 2 {
			n = 2 // each confirmation of a hang costs the watchdog limit in real time
		}
		for i := 0; i < n; i++ {
			rr := vr.Start(t, r.Property, r.Part)
			simReplayOne(t, rr, rp)
			for _, v2 := range rr.Violations {
				if v2.Key == v.Key {
					hits++
					break
				}
			}
		}
		if hits == n {
			stable = append(stable, v)
		} else {
			unstable = append(unstable, fmt.Sprintf("%s reproduced %d/%d: %s", v.Key, hits, n, simTail(v.What, 400)))
		}
	}
	r.Violations = stable
	if len(unstable) > 0 {
		r.Extra["unstable_observations"] = unstable
		r.Cap("some observations did not reproduce 5/5 and are not reported as violations")
	}
}
