package server

// C06 part "oldpeer" — the reaction to a malformed UPDATE depends on three per-session parameters
// (eBGP? confederation member? revised error handling?) that the FSM derives when the session is
// established. The parts "classify" and "effect" run on sessions with the 4-octet AS capability; this part
// repeats the session-dependent reactions on sessions WITHOUT it (a 2-octet-AS speaker: the code path
// that sets up the AS-width transition lies between the places where those parameters are derived and
// used), for every peer type x error-handling mode, and after a previous session of the other kind.
//
// Expected reactions (RFC 7606 3.d/7.1/7.2, RFC 5065 5, RFC 4271 6.3):
//   well-formed UPDATE                                  installed, session stays up
//   ORIGIN missing                                      revised: treat-as-withdraw; otherwise NOTIFICATION 3/3
//   AS_CONFED_SEQUENCE from an eBGP non-member peer     revised: treat-as-withdraw; otherwise NOTIFICATION 3/11

import (
	"encoding/binary"
	"encoding/json"
	"fmt"
	"net/netip"
	"strings"
	"testing"
	"time"

	api "github.com/osrg/gobgp/v4/api"
	"github.com/osrg/gobgp/v4/internal/verif/c06lib"
	"github.com/osrg/gobgp/v4/internal/verif/vr"
	"github.com/osrg/gobgp/v4/pkg/config/oc"
	"github.com/osrg/gobgp/v4/pkg/packet/bgp"
)

type c06oCase struct {
	Peer    int    `json:"peer"`
	Revised bool   `json:"revised"`
	Fault   string `json:"fault"` // ok | missing-origin | confed-segment
	// Prev: the session under test follows an earlier session of the same neighbour in which the peer
	// DID announce the 4-octet capability (state of a previous session must not leak)
	Prev bool `json:"prev"`
	// AP: instead of a 2-octet-AS session, a 4-octet session on which the daemon RECEIVES ADD-PATH path identifiers
	// for IPv6 unicast; the route under test is an IPv6 route (MP_REACH_NLRI) with path identifier 7
	AP bool `json:"ap,omitempty"`
}

func (c c06oCase) String() string {
	if c.AP {
		return fmt.Sprintf("ADD-PATH (IPv6, path id 7) %s peer, revised=%v, fault=%s", c06lib.PeerType(c.Peer), c.Revised, c.Fault)
	}
	return fmt.Sprintf("2-octet-AS %s peer, revised=%v, fault=%s, after-4-octet-session=%v", c06lib.PeerType(c.Peer), c.Revised, c.Fault, c.Prev)
}

type c06oScenario struct {
	cs  c06oCase
	bot *simBot
	seq int
}

func init() {
	simScenarios["c06old"] = func(arg string) simScenario {
		sc := &c06oScenario{}
		if err := json.Unmarshal([]byte(arg), &sc.cs); err != nil {
			panic("c06old: bad case " + arg)
		}
		return sc
	}
}

func (sc *c06oScenario) ForceDrain() bool               { return true }
func (sc *c06oScenario) Enabled(w *simWorld) []simEvent { return nil }
func (sc *c06oScenario) Key(w *simWorld) string         { return "" }

const (
	c06oP = "10.77.1.0/24" // announced well-formed first
	c06oQ = "10.77.2.0/24" // named by the UPDATE under test (also announced well-formed first)
)

func c06oAttr(flags, typ byte, val []byte) []byte {
	return append([]byte{flags, typ, byte(len(val))}, val...)
}

// c06oUpdate writes an UPDATE for one IPv4 prefix with a 2-octet AS_PATH by hand.
func c06oUpdate(pt c06lib.PeerType, prefix string, origin, confedSeg bool) []byte {
	seg := func(t byte, as ...uint16) []byte {
		b := []byte{t, byte(len(as))}
		for _, a := range as {
			b = binary.BigEndian.AppendUint16(b, a)
		}
		return b
	}
	var path []byte
	if confedSeg {
		path = append(path, seg(3, 65077)...)
	}
	switch pt {
	case c06lib.EBGP:
		path = append(path, seg(2, uint16(c06lib.EBGPPeerAS), 65010)...)
	case c06lib.IBGP:
		path = append(path, seg(2, 65010)...)
	case c06lib.Confed:
		path = append(seg(3, uint16(c06lib.ConfedMemberAS)), seg(2, 65010)...)
	}
	var attrs []byte
	if origin {
		attrs = append(attrs, c06oAttr(0x40, 1, []byte{0})...)
	}
	attrs = append(attrs, c06oAttr(0x40, 2, path)...)
	attrs = append(attrs, c06oAttr(0x40, 3, []byte{c06lib.BotIP[0], c06lib.BotIP[1], c06lib.BotIP[2], c06lib.BotIP[3]})...)
	if pt != c06lib.EBGP {
		attrs = append(attrs, c06oAttr(0x40, 5, []byte{0, 0, 0, 100})...)
	}
	p := netip.MustParsePrefix(prefix)
	a4 := p.Addr().As4()
	nlri := append([]byte{byte(p.Bits())}, a4[:(p.Bits()+7)/8]...)
	body := []byte{0, 0}
	body = binary.BigEndian.AppendUint16(body, uint16(len(attrs)))
	body = append(body, attrs...)
	body = append(body, nlri...)
	hdr := make([]byte, 19)
	for i := 0; i < 16; i++ {
		hdr[i] = 0xff
	}
	binary.BigEndian.PutUint16(hdr[16:18], uint16(19+len(body)))
	hdr[18] = bgp.BGP_MSG_UPDATE
	return append(hdr, body...)
}

const c06oQ6 = "2001:db8:77::/48"

// c06oUpdate6 writes an UPDATE announcing c06oQ6 with path identifier 7 inside MP_REACH_NLRI (4-octet AS_PATH).
func c06oUpdate6(pt c06lib.PeerType, origin bool) []byte {
	seg := func(t byte, as ...uint32) []byte {
		b := []byte{t, byte(len(as))}
		for _, a := range as {
			b = binary.BigEndian.AppendUint32(b, a)
		}
		return b
	}
	var path []byte
	switch pt {
	case c06lib.EBGP:
		path = seg(2, c06lib.EBGPPeerAS, 65010)
	case c06lib.IBGP:
		path = seg(2, 65010)
	case c06lib.Confed:
		path = append(seg(3, c06lib.ConfedMemberAS), seg(2, 65010)...)
	}
	var attrs []byte
	if origin {
		attrs = append(attrs, c06oAttr(0x40, 1, []byte{0})...)
	}
	attrs = append(attrs, c06oAttr(0x40, 2, path)...)
	if pt != c06lib.EBGP {
		attrs = append(attrs, c06oAttr(0x40, 5, []byte{0, 0, 0, 100})...)
	}
	nh := netip.MustParseAddr("2001:db8::1").As16()
	mp := []byte{0, 2, 1, 16}
	mp = append(mp, nh[:]...)
	mp = append(mp, 0)
	mp = append(mp, 0, 0, 0, 7, 48, 0x20, 0x01, 0x0d, 0xb8, 0x00, 0x77)
	attrs = append(attrs, c06oAttr(0x80, 14, mp)...)
	body := []byte{0, 0}
	body = binary.BigEndian.AppendUint16(body, uint16(len(attrs)))
	body = append(body, attrs...)
	hdr := make([]byte, 19)
	for i := 0; i < 16; i++ {
		hdr[i] = 0xff
	}
	binary.BigEndian.PutUint16(hdr[16:18], uint16(19+len(body)))
	hdr[18] = bgp.BGP_MSG_UPDATE
	return append(hdr, body...)
}

func (sc *c06oScenario) Setup(w *simWorld) {
	pt := c06lib.PeerType(sc.cs.Peer)
	if pt == c06lib.Confed {
		w.global = func(g *api.Global) {
			g.Confederation = &api.Confederation{Enabled: true, Identifier: c06lib.ConfedID, MemberAsList: []uint32{c06lib.ConfedMemberAS}}
		}
	}
	w.serverAS = c06lib.ServerAS
	w.start()
	revised := sc.cs.Revised
	spec := simBotSpec{Name: "p", IP: c06lib.BotIP, AS: c06lib.PeerAS(pt), RouterID: [4]byte{1, 1, 1, 1}, Families: []bgp.Family{bgp.RF_IPv4_UC},
		No4Octet: !sc.cs.Prev && !sc.cs.AP,
		// AddPeer forces treat-as-withdraw on; only a configuration file can switch it off
		FileOnly: func(n *oc.Neighbor) { n.ErrorHandling.Config.TreatAsWithdraw = revised }}
	if sc.cs.AP {
		spec.Families = []bgp.Family{bgp.RF_IPv4_UC, bgp.RF_IPv6_UC}
		spec.AddPath = map[bgp.Family]bgp.BGPAddPathMode{bgp.RF_IPv6_UC: bgp.BGP_ADD_PATH_SEND}
		spec.Neighbor = func(n *oc.Neighbor) {
			for j := range n.AfiSafis {
				n.AfiSafis[j].AddPaths.Config.Receive = true
			}
		}
	}
	sc.bot = w.addBot(spec)
	w.advance(time.Second)
	if !sc.bot.handshake() {
		panic("c06old setup: session did not establish")
	}
	w.advance(time.Second)
	if sc.cs.Prev {
		// end the 4-octet session and come back as a 2-octet speaker
		sc.bot.disconnect()
		w.settle()
		w.advance(10 * time.Second)
		sc.bot.spec.No4Octet = true
		if !sc.bot.handshake() {
			panic("c06old setup: second session did not establish")
		}
		w.advance(time.Second)
	}
	p := w.peer(sc.bot)
	if sc.cs.AP {
		if !p.isAddPathReceiveEnabled(bgp.RF_IPv6_UC) {
			panic("c06old setup: ADD-PATH receive was not negotiated for IPv6")
		}
		sc.bot.send(c06oUpdate6(pt, true))
		w.settle()
		w.advance(time.Second)
		sc.seq = len(sc.bot.rxAll())
		return
	}
	if !p.fsm.twoByteAsTrans {
		panic("c06old setup: the session is not a 2-octet-AS session")
	}
	for _, pf := range []string{c06oP, c06oQ} {
		sc.bot.send(c06oUpdate(pt, pf, true, false))
	}
	w.settle()
	w.advance(time.Second)
	sc.seq = len(sc.bot.rxAll())
}

func (sc *c06oScenario) Apply(w *simWorld, e simEvent) {
	pt := c06lib.PeerType(sc.cs.Peer)
	switch sc.cs.Fault {
	case "ok":
		sc.bot.send(c06oUpdate(pt, c06oQ, true, false))
	case "missing-origin":
		sc.bot.send(c06oUpdate(pt, c06oQ, false, false))
	case "confed-segment":
		sc.bot.send(c06oUpdate(pt, c06oQ, true, true))
	case "mp-addpath-ok":
		sc.bot.send(c06oUpdate6(pt, true))
	case "mp-addpath-missing-origin":
		sc.bot.send(c06oUpdate6(pt, false))
	default:
		panic("c06old: unknown fault")
	}
	w.settle()
	w.advance(time.Second)
}

func (sc *c06oScenario) Check(w *simWorld, last *simEvent) {
	pt := c06lib.PeerType(sc.cs.Peer)
	p := w.peer(sc.bot)
	cs := sc.cs
	tag := fmt.Sprintf("peer=%s:revised=%v:after-4-octet-session=%v", pt, cs.Revised, cs.Prev)
	if cs.AP {
		tag = fmt.Sprintf("peer=%s:revised=%v:addpath-ipv6", pt, cs.Revised)
	}
	if last == nil {
		// session parameters (white box) and the well-formed routes
		if p.fsm.isTreatAsWithdraw != cs.Revised || p.fsm.isEBGP != (pt != c06lib.IBGP) || p.fsm.isConfed != (pt == c06lib.Confed) {
			w.violate("C06:oldpeer:session-parameters:"+tag, "2-octet-AS session of a %s peer (revised error handling %v): the FSM validates its UPDATEs with treat-as-withdraw=%v ebgp=%v confed=%v",
				pt, cs.Revised, p.fsm.isTreatAsWithdraw, p.fsm.isEBGP, p.fsm.isConfed)
		}
		wantN := 2
		if cs.AP {
			wantN = 1
		}
		if n := len(w.adjInDump(p)); n != wantN {
			w.violate("C06:oldpeer:well-formed-update-penalised:"+tag, "two well-formed UPDATEs of a 2-octet-AS %s peer: %d routes in the Adj-RIB-In (session %s)", pt, n, p.State())
		}
		return
	}
	want := "installed"
	code := ""
	switch cs.Fault {
	case "mp-addpath-missing-origin":
		want, code = "reset", "NOTIF 3/3"
	case "missing-origin":
		want, code = "reset", "NOTIF 3/3"
	case "confed-segment":
		want, code = "reset", "NOTIF 3/11"
	}
	if want == "reset" && cs.Revised {
		want = "taw"
	}
	var notif []string
	for _, rx := range sc.bot.rxAll()[sc.seq:] {
		if rx.Type == bgp.BGP_MSG_NOTIFICATION {
			if rx.Msg != nil {
				n := rx.Msg.Body.(*bgp.BGPNotification)
				notif = append(notif, fmt.Sprintf("NOTIF %d/%d", n.ErrorCode, n.ErrorSubcode))
			} else {
				notif = append(notif, "NOTIF ?")
			}
		}
	}
	up := p.State() == bgp.BGP_FSM_ESTABLISHED && sc.bot.connected()
	has := map[string]bool{}
	for _, r := range w.adjInDump(p) {
		has[r.Prefix] = true
	}
	got := "?"
	switch {
	case !up:
		got = "reset"
	case cs.AP && has[c06oQ6]:
		got = "installed"
	case cs.AP:
		got = "taw"
	case has[c06oQ] && has[c06oP]:
		got = "installed"
	case !has[c06oQ] && has[c06oP]:
		got = "taw"
	default:
		got = fmt.Sprintf("up-with-routes-%v", has)
	}
	w.stat(fmt.Sprintf("oldpeer fault=%s want=%s got=%s", cs.Fault, want, got))
	if got != want {
		w.violate(fmt.Sprintf("C06:oldpeer:reaction:%s:want=%s:got=%s:%s", cs.Fault, want, got, tag),
			"%s: expected reaction %s, observed %s (NOTIFICATIONs received: %v)", cs, want, got, notif)
		return
	}
	if want == "reset" && fmt.Sprint(notif) != fmt.Sprint([]string{code}) {
		w.violate(fmt.Sprintf("C06:oldpeer:notification:%s:want=%s:%s", cs.Fault, code, tag), "%s: expected %s, received %v", cs, code, notif)
	}
	if want != "reset" && len(notif) > 0 {
		w.violate(fmt.Sprintf("C06:oldpeer:notification-without-reset:%s:%s", cs.Fault, tag), "%s: received %v", cs, notif)
	}
}

func TestVerif_C06_OldPeer(t *testing.T) {
	r := vr.Start(t, "C06", "oldpeer")
	defer r.Finish()
	r.Rule = "one synctest bubble per case: real daemon, a peer bot WITHOUT the 4-octet AS capability of each type {eBGP, iBGP, confederation member} x revised error handling {on, off} x {first session, after a session with the capability} x {well-formed, ORIGIN missing, AS_CONFED_SEQUENCE from a non-member}, plus a 4-octet session on which the daemon receives ADD-PATH path identifiers for IPv6 x {well-formed re-announcement, ORIGIN missing} of an IPv6 route with path id 7 (treat-as-withdraw must remove that very path): session parameters used for validation (white box) and the reaction (installed / treat-as-withdraw / NOTIFICATION code+subcode); non-trivial = distinct case"
	if r.ReplayPath() != "" {
		var rp simReplay
		if err := r.LoadReplay(&rp); err != nil {
			t.Fatal(err)
		}
		simReplayOne(t, r, rp)
		return
	}
	var cases []c06oCase
	for _, pt := range c06lib.PeerTypes {
		for _, rev := range []bool{true, false} {
			for _, prev := range []bool{false, true} {
				for _, f := range []string{"ok", "missing-origin", "confed-segment"} {
					if f == "confed-segment" && pt != c06lib.EBGP {
						continue
					}
					cases = append(cases, c06oCase{Peer: int(pt), Revised: rev, Fault: f, Prev: prev})
				}
			}
		}
	}
	for _, pt := range c06lib.PeerTypes {
		for _, rev := range []bool{true, false} {
			for _, f := range []string{"mp-addpath-ok", "mp-addpath-missing-origin"} {
				cases = append(cases, c06oCase{Peer: int(pt), Revised: rev, Fault: f, AP: true})
			}
		}
	}
	r.Bounds["cases"] = len(cases)
	var jobs []simJob
	for i, c := range cases {
		arg, _ := json.Marshal(c)
		jobs = append(jobs, simJob{ID: i, Scenario: "c06old", Arg: string(arg), Hist: []simEvent{{Op: "fault"}}})
	}
	pool := &simPool{n: 8}
	pool.runAll(jobs, func(o simOutcome) {
		r.Eval()
		rp := simReplay{"c06old", o.job.Arg, o.job.Hist}
		c := cases[o.job.ID]
		if o.crash != "" {
			r.Violationf("C06:oldpeer:daemon-crash:"+simCrashSite(o.crash), rp, "the daemon process died on %s:\n%s", c, simTail(o.crash, 2500))
			return
		}
		if o.res.Panic != "" {
			if strings.Contains(o.res.Panic, "c06old setup:") || strings.Contains(o.res.Panic, "c06old:") {
				t.Fatalf("ENGINE-ERROR %s: %s", c, simTail(o.res.Panic, 1500))
			}
			r.Violationf("panic:c06old:"+simCrashSite(o.res.Panic), rp, "panic on %s: %s", c, simTail(o.res.Panic, 3000))
			return
		}
		r.NT(o.job.Arg)
		for _, v := range o.res.Viol {
			r.Violationf(v.Key, rp, "%s", v.What)
		}
		for k, n := range o.res.Stats {
			r.Outcomes[k] += int64(n)
		}
	})
	for _, k := range []string{"oldpeer fault=mp-addpath-missing-origin want=taw got=taw", "oldpeer fault=ok want=installed got=installed", "oldpeer fault=missing-origin want=taw got=taw", "oldpeer fault=missing-origin want=reset got=reset", "oldpeer fault=confed-segment want=taw got=taw"} {
		if r.Outcomes[k] == 0 && len(r.Violations) == 0 {
			t.Fatalf("ENGINE-ERROR vacuous: outcome %q never seen: %v", k, r.Outcomes)
		}
	}
	simConfirm(t, r, 3)
}
