// Package c06lib holds what the two parts of check C06 share: a tiny raw UPDATE writer, the base
// UPDATEs, the byte-level fault catalogue and "ref7606", an independent classifier of UPDATE bytes
// written from RFC 7606 sections 3-7, RFC 4271 section 6.3, RFC 4760 section 7 and RFC 5065.
// Nothing here imports gobgp: everything works on plain bytes.
package c06lib

import (
	"encoding/binary"
	"encoding/hex"
	"net/netip"
)

// ---- session model ---------------------------------------------------------------------------

type PeerType int

const (
	EBGP PeerType = iota
	IBGP
	Confed // eBGP session to another member AS of the same confederation
)

func (p PeerType) String() string { return [...]string{"ebgp", "ibgp", "confed"}[p] }

var PeerTypes = []PeerType{EBGP, IBGP, Confed}

const (
	ServerAS       = 65000
	EBGPPeerAS     = 65001
	ConfedMemberAS = 65002 // the confederation peer's member AS
	ConfedID       = 65300
	ObserverAS     = 65009
	MarkerOld      = 65010 // last AS of the AS_PATH of the routes announced before the faulty UPDATE
	MarkerNew      = 65020 // last AS of the AS_PATH carried by the (faulty) UPDATE under test
)

func PeerAS(pt PeerType) uint32 {
	switch pt {
	case IBGP:
		return ServerAS
	case Confed:
		return ConfedMemberAS
	}
	return EBGPPeerAS
}

// ---- attribute type codes and flags -----------------------------------------------------------

const (
	TOrigin     = 1
	TASPath     = 2
	TNextHop    = 3
	TMED        = 4
	TLocalPref  = 5
	TAtomicAggr = 6
	TAggregator = 7
	TCommunity  = 8
	TOriginator = 9
	TCluster    = 10
	TMPReach    = 14
	TMPUnreach  = 15
	TUnknownOT  = 241 // unassigned type used as "unknown optional transitive"
	TUnknownWK  = 200 // unassigned type used as "unknown well-known" (optional bit clear)

	FOpt     = 0x80
	FTrans   = 0x40
	FPartial = 0x20
	FExt     = 0x10
)

// ---- raw writer -------------------------------------------------------------------------------

// Attr is one path attribute TLV as it will be written. The value bytes are always written in full;
// LenField (>=0) overrides what the length field says, LenBytes (1 or 2) overrides how many octets
// the length field occupies (0 = as the Extended Length bit says).
type Attr struct {
	Tag      string
	Flags    byte
	Type     byte
	Val      []byte
	LenField int
	LenBytes int
}

func (a Attr) Bytes() []byte {
	l := len(a.Val)
	if a.LenField >= 0 {
		l = a.LenField
	}
	n := 1
	if a.Flags&FExt != 0 {
		n = 2
	}
	if a.LenBytes != 0 {
		n = a.LenBytes
	}
	out := []byte{a.Flags, a.Type}
	if n == 2 {
		out = append(out, byte(l>>8), byte(l))
	} else {
		out = append(out, byte(l))
	}
	return append(out, a.Val...)
}

// Msg is an UPDATE as it will be written. The BGP header is always consistent with the number of
// bytes written (header faults are the business of other checks).
type Msg struct {
	Wd       [][]byte // withdrawn routes, each <len, prefix octets>
	WdLenAdj int      // added to the Withdrawn Routes Length field
	WdLenAbs int      // >=0: absolute value of the field
	Attrs    []Attr
	AttrCut  int // >=0: only the first AttrCut octets of the attribute block are written
	TotAdj   int // added to the Total Path Attribute Length field
	TotAbs   int // >=0: absolute value of the field
	NLRI     [][]byte
}

func NewMsg() Msg { return Msg{WdLenAbs: -1, TotAbs: -1, AttrCut: -1} }

func (m Msg) Clone() Msg {
	c := m
	c.Wd = cloneBB(m.Wd)
	c.NLRI = cloneBB(m.NLRI)
	c.Attrs = make([]Attr, len(m.Attrs))
	for i, a := range m.Attrs {
		a.Val = append([]byte(nil), a.Val...)
		c.Attrs[i] = a
	}
	return c
}

func cloneBB(x [][]byte) [][]byte {
	o := make([][]byte, len(x))
	for i := range x {
		o[i] = append([]byte(nil), x[i]...)
	}
	return o
}

func (m Msg) AttrBlock() []byte {
	var blk []byte
	for _, a := range m.Attrs {
		blk = append(blk, a.Bytes()...)
	}
	if m.AttrCut >= 0 && m.AttrCut < len(blk) {
		blk = blk[:m.AttrCut]
	}
	return blk
}

// Body returns the UPDATE body (everything after the 19-octet header).
func (m Msg) Body() []byte {
	var wd []byte
	for _, w := range m.Wd {
		wd = append(wd, w...)
	}
	wl := len(wd) + m.WdLenAdj
	if m.WdLenAbs >= 0 {
		wl = m.WdLenAbs
	}
	blk := m.AttrBlock()
	tl := len(blk) + m.TotAdj
	if m.TotAbs >= 0 {
		tl = m.TotAbs
	}
	if wl < 0 {
		wl = 0
	}
	if tl < 0 {
		tl = 0
	}
	out := []byte{byte(wl >> 8), byte(wl)}
	out = append(out, wd...)
	out = append(out, byte(tl>>8), byte(tl))
	out = append(out, blk...)
	for _, n := range m.NLRI {
		out = append(out, n...)
	}
	return out
}

// Bytes returns the whole message, header included.
func (m Msg) Bytes() []byte { return WithHeader(m.Body()) }

func WithHeader(body []byte) []byte {
	h := make([]byte, 19)
	for i := 0; i < 16; i++ {
		h[i] = 0xff
	}
	binary.BigEndian.PutUint16(h[16:18], uint16(19+len(body)))
	h[18] = 2
	return append(h, body...)
}

func Hex(b []byte) string { return hex.EncodeToString(b) }

func u32(v uint32) []byte { return []byte{byte(v >> 24), byte(v >> 16), byte(v >> 8), byte(v)} }

// Pfx encodes a prefix as <length, ceil(length/8) octets>.
func Pfx(s string) []byte {
	p := netip.MustParsePrefix(s)
	a := p.Addr().AsSlice()
	return append([]byte{byte(p.Bits())}, a[:(p.Bits()+7)/8]...)
}

func seg(t byte, as ...uint32) []byte {
	o := []byte{t, byte(len(as))}
	for _, a := range as {
		o = append(o, u32(a)...)
	}
	return o
}

// ---- base UPDATEs -----------------------------------------------------------------------------

const (
	P4 = "10.10.1.0/24" // named by every announcing base
	Q4 = "10.10.2.0/24" // never named by a base: must survive everything short of a reset
	R4 = "10.10.3.0/24" // second NLRI of v4min; withdrawn by wd / mixed
	P6 = "2001:db8:1::/48"
	Q6 = "2001:db8:2::/48"
)

var (
	BotIP   = [4]byte{10, 0, 0, 1}
	BotNH6  = netip.MustParseAddr("2001:db8::1")
	GoodNH4 = []byte{10, 0, 0, 1}
)

// ASPathFor is the well-formed AS_PATH a peer of that type sends (4-octet AS numbers).
func ASPathFor(pt PeerType, marker uint32) []byte {
	switch pt {
	case IBGP:
		return seg(2, 65100, marker)
	case Confed:
		return append(seg(3, ConfedMemberAS), seg(2, 65100, marker)...)
	}
	return seg(2, EBGPPeerAS, marker)
}

func at(tag string, flags, typ byte, val []byte) Attr {
	return Attr{Tag: tag, Flags: flags, Type: typ, Val: val, LenField: -1}
}

func MPReach6(nh netip.Addr, pfx ...string) []byte {
	v := []byte{0, 2, 1, 16}
	v = append(v, nh.AsSlice()...)
	v = append(v, 0)
	for _, p := range pfx {
		v = append(v, Pfx(p)...)
	}
	return v
}

func MPUnreach6(pfx ...string) []byte {
	v := []byte{0, 2, 1}
	for _, p := range pfx {
		v = append(v, Pfx(p)...)
	}
	return v
}

type Base struct {
	Name string
	Msg  Msg
}

var BaseNames = []string{"v4min", "v4full", "v4full-rev", "mp6", "wd", "mixed"}

// BuildBase returns the well-formed base UPDATE of that name as a peer of type pt would send it.
func BuildBase(name string, pt PeerType, marker uint32) Base {
	m := NewMsg()
	origin := at("ORIGIN", FTrans, TOrigin, []byte{0})
	aspath := at("AS_PATH", FTrans, TASPath, ASPathFor(pt, marker))
	nh := at("NEXT_HOP", FTrans, TNextHop, append([]byte(nil), GoodNH4...))
	med := at("MED", FOpt, TMED, u32(50))
	// RFC 4271 5.1.5: LOCAL_PREF SHALL be included in every UPDATE sent to an internal peer
	withLP := func(a []Attr) []Attr {
		if pt == IBGP {
			a = append(a, at("LOCAL_PREF", FTrans, TLocalPref, u32(200)))
		}
		return a
	}
	switch name {
	case "v4min":
		m.Attrs = withLP([]Attr{origin, aspath, nh})
		m.NLRI = [][]byte{Pfx(P4), Pfx(R4)}
	case "v4full", "v4full-rev":
		m.Attrs = []Attr{origin, aspath, nh, med}
		if pt != EBGP {
			// RFC 4271 5.1.5: LOCAL_PREF only travels between internal peers (RFC 5065: and across
			// member-AS boundaries inside a confederation)
			m.Attrs = append(m.Attrs, at("LOCAL_PREF", FTrans, TLocalPref, u32(200)))
		}
		m.Attrs = append(m.Attrs,
			at("ATOMIC_AGGREGATE", FTrans, TAtomicAggr, nil),
			at("AGGREGATOR", FOpt|FTrans, TAggregator, append(u32(65011), 10, 9, 9, 9)),
			at("COMMUNITIES", FOpt|FTrans, TCommunity, append(u32(65000<<16|1), u32(65000<<16|2)...)))
		if pt == IBGP {
			// RFC 4456: only meaningful between internal peers
			m.Attrs = append(m.Attrs,
				at("ORIGINATOR_ID", FOpt, TOriginator, []byte{10, 8, 8, 8}),
				at("CLUSTER_LIST", FOpt, TCluster, []byte{10, 7, 7, 7}))
		}
		m.Attrs = append(m.Attrs, at("UNKNOWN_OT", FOpt|FTrans, TUnknownOT, []byte{0xde, 0xad, 0xbe}))
		if name == "v4full-rev" {
			for i, j := 0, len(m.Attrs)-1; i < j; i, j = i+1, j-1 {
				m.Attrs[i], m.Attrs[j] = m.Attrs[j], m.Attrs[i]
			}
		}
		m.NLRI = [][]byte{Pfx(P4)}
	case "mp6":
		m.Attrs = withLP([]Attr{at("MP_REACH", FOpt, TMPReach, MPReach6(BotNH6, P6)), origin, aspath, med})
	case "wd":
		m.Wd = [][]byte{Pfx(P4), Pfx(R4)}
	case "mixed":
		m.Wd = [][]byte{Pfx(R4)}
		m.Attrs = withLP([]Attr{origin, aspath, nh, at("MP_UNREACH", FOpt, TMPUnreach, MPUnreach6(P6))})
		m.NLRI = [][]byte{Pfx(P4)}
	default:
		panic("c06lib: unknown base " + name)
	}
	return Base{Name: name, Msg: m}
}

// SetupUpdates are the well-formed announcements a bot sends before the UPDATE under test: every
// prefix any base names, plus Q4/Q6 which no base names, all with the "old" marker.
func SetupUpdates(pt PeerType) [][]byte {
	a := NewMsg()
	a.Attrs = []Attr{at("ORIGIN", FTrans, TOrigin, []byte{0}), at("AS_PATH", FTrans, TASPath, ASPathFor(pt, MarkerOld)),
		at("NEXT_HOP", FTrans, TNextHop, append([]byte(nil), GoodNH4...))}
	if pt == IBGP {
		a.Attrs = append(a.Attrs, at("LOCAL_PREF", FTrans, TLocalPref, u32(100)))
	}
	a.NLRI = [][]byte{Pfx(P4), Pfx(Q4), Pfx(R4)}
	b := NewMsg()
	b.Attrs = []Attr{at("MP_REACH", FOpt, TMPReach, MPReach6(BotNH6, P6, Q6)), at("ORIGIN", FTrans, TOrigin, []byte{0}),
		at("AS_PATH", FTrans, TASPath, ASPathFor(pt, MarkerOld))}
	if pt == IBGP {
		b.Attrs = append(b.Attrs, at("LOCAL_PREF", FTrans, TLocalPref, u32(100)))
	}
	return [][]byte{a.Bytes(), b.Bytes()}
}
