package server

// C20 part "park" — shutdown, peer deletion and administrative operations issued while ONE goroutine of the
// daemon is held at one of its own log records (park sites, DESIGN 11.2). Two passive peers, both sessions
// established, a route announced by one and propagated to the other, withdrawn, one remote leaving: every
// record the daemon logs on the way is a park site. While the goroutine that emits it is held, the harness
// issues StopBgp / DeletePeer / DisablePeer / closes a connection / plays the rest of the script, lets that
// run as far as it can, and releases the goroutine. Whatever the order the two racing things took effect in:
//   - every API call returns (within 10 s of virtual time after the release): no deadlock;
//   - after StopBgp (issued at the latest at the end) every connection is closed by the daemon;
//   - no goroutine the daemon started is left in the bubble (nothing force-drained by the harness);
//   - nothing panics.
// Sites reached with a peer's FSM lock or the table lock taken are skipped and counted (a goroutine waiting for a
// sync.Mutex is not durably blocked; the bubble could not be observed any more).

import (
	"context"
	"fmt"
	"net"
	"net/netip"
	"os"
	"runtime"
	"sort"
	"strings"
	"sync"
	"sync/atomic"
	"testing"
	"testing/synctest"
	"time"

	"github.com/osrg/gobgp/v4/api"
	"github.com/osrg/gobgp/v4/internal/verif/vr"
	"github.com/osrg/gobgp/v4/pkg/config/oc"
	"github.com/osrg/gobgp/v4/pkg/packet/bgp"
)

type c20pCase struct {
	Park int    `json:"park"` // index of the record whose goroutine is held (-1: nobody)
	X    string `json:"x"`    // none | stopbgp | deleteA | deleteB | disableA | closeA | rest
}

func (c c20pCase) String() string {
	return fmt.Sprintf("goroutine held at record #%d, meanwhile: %s", c.Park, c.X)
}

type c20pResult struct {
	records  int
	reached  bool
	parkedAt string
	skipped  bool
	problems []string
	leak     bool
}

func c20pOpen(as uint32, id string) []byte {
	m, _ := bgp.NewBGPOpenMessage(uint16(as), 90, netip.MustParseAddr(id),
		[]bgp.OptionParameterInterface{bgp.NewOptionParameterCapability(
			[]bgp.ParameterCapabilityInterface{bgp.NewCapMultiProtocol(bgp.RF_IPv4_UC), bgp.NewCapFourOctetASNumber(as), bgp.NewCapRouteRefresh(),
				bgp.NewCapGracefulRestart(false, false, 120, []*bgp.CapGracefulRestartTuple{bgp.NewCapGracefulRestartTuple(bgp.RF_IPv4_UC, true)})})})
	b, _ := m.Serialize()
	return b
}

func c20pRun(t *testing.T, c c20pCase) (res c20pResult) {
	synctest.Test(t, func(t *testing.T) {
		park := &simPark{want: c.Park, reached: make(chan struct{}), release: make(chan struct{})}
		armed, skip := false, 0
		var hmu sync.Mutex
		var peers []*peer
		w := &simWorld{t: t}
		gate := simParkHandler{p: park, armed: &armed, mu: &hmu, skip: &skip}
		gate.locks = func() bool {
			for _, p := range peers {
				if !p.fsm.lock.TryLock() {
					return true
				}
				p.fsm.lock.Unlock()
			}
			if !w.s.shared.mu.TryLock() {
				return true
			}
			w.s.shared.mu.Unlock()
			return false
		}
		w.logHandler = gate
		w.start()
		gr := func(n *oc.Neighbor) {
			n.GracefulRestart.Config.Enabled = true
			n.GracefulRestart.Config.RestartTime = 120
			for i := range n.AfiSafis {
				n.AfiSafis[i].MpGracefulRestart.Config.Enabled = true
			}
		}
		specA := simBotSpec{Name: "A", IP: [4]byte{10, 0, 0, 1}, AS: 65001, RouterID: [4]byte{1, 1, 1, 1}, HoldTime: 90, Neighbor: gr}
		specB := simBotSpec{Name: "B", IP: [4]byte{10, 0, 0, 2}, AS: 65002, RouterID: [4]byte{2, 2, 2, 2}, HoldTime: 90, Neighbor: gr}
		botA, botB := w.addBot(specA), w.addBot(specB)
		peers = []*peer{w.peer(botA), w.peer(botB)}
		w.advance(time.Second)

		var remotes []*simParkRemote
		conn := func(ip [4]byte, port int) *simParkRemote {
			sc, bc := simPipe(w.serverIP, ip, 179, port)
			r := &simParkRemote{conn: bc}
			remotes = append(remotes, r)
			go r.reader()
			go func() {
				_ = w.s.mgmtOperation(func() error { w.s.passConnToPeer(&simParkConn{simConn: sc, h: gate}); return nil }, false)
			}()
			return r
		}
		var ra, rb *simParkRemote
		ka, _ := bgp.NewBGPKeepAliveMessage().Serialize()
		nlri, _ := bgp.NewIPAddrPrefix(netip.MustParsePrefix("10.9.0.0/24"))
		nh, _ := bgp.NewPathAttributeNextHop(netip.MustParseAddr("10.0.0.1"))
		upd, _ := bgp.NewBGPUpdateMessage(nil, []bgp.PathAttributeInterface{
			bgp.NewPathAttributeOrigin(0),
			bgp.NewPathAttributeAsPath([]bgp.AsPathParamInterface{bgp.NewAs4PathParam(bgp.BGP_ASPATH_ATTR_TYPE_SEQ, []uint32{65001})}),
			nh,
		}, []bgp.PathNLRI{{NLRI: nlri}}).Serialize()
		wd, _ := bgp.NewBGPUpdateMessage([]bgp.PathNLRI{{NLRI: nlri}}, nil, nil).Serialize()
		write := func(r *simParkRemote, b []byte) {
			if r != nil && !r.closed() {
				r.write(b)
			}
		}
		steps := []func(){
			func() { ra = conn(specA.IP, 40001) },
			func() { write(ra, c20pOpen(65001, "1.1.1.1")) },
			func() { write(ra, ka) },
			func() { rb = conn(specB.IP, 40002) },
			func() { write(rb, c20pOpen(65002, "2.2.2.2")) },
			func() { write(rb, ka) },
			func() { write(ra, upd) },
			func() { write(ra, wd) },
			func() { write(ra, upd) },
			func() {
				rb.mu.Lock()
				rb.selfClose = true
				rb.mu.Unlock()
				rb.conn.Close()
			},
		}
		stalled := strings.HasPrefix(c.X, "stall")
		if stalled {
			// B is stuck: it stops reading once both sessions are up, A's routes pile up in the daemon's writer to B
			steps = append(steps[:6:6], func() { rb.stall() }, func() { write(ra, upd) }, func() { write(ra, wd) }, func() { write(ra, upd) })
		}
		parked := func() bool {
			select {
			case <-park.reached:
				return true
			default:
				return false
			}
		}
		hmu.Lock()
		armed = true
		hmu.Unlock()
		done := 0
		for done < len(steps) && !parked() {
			steps[done]()
			done++
			synctest.Wait()
		}
		res.reached = parked()

		type call struct {
			name string
			done atomic.Bool
			pn   atomic.Value
		}
		var calls []*call
		api1 := func(name string, f func() error) {
			cl := &call{name: name}
			calls = append(calls, cl)
			go func() {
				defer func() {
					if r := recover(); r != nil {
						cl.pn.Store(fmt.Sprint(r))
					}
					cl.done.Store(true)
				}()
				_ = f()
			}()
		}
		stopped := false
		stopBgp := func() {
			stopped = true
			api1("StopBgp", func() error {
				return w.s.StopBgp(context.Background(), &api.StopBgpRequest{AllowGracefulRestart: c.X == "stall-stopgr" || c.X == "stopbgp-gr"})
			})
		}
		if res.reached {
			switch c.X {
			case "stopbgp", "stopbgp-gr":
				stopBgp()
			case "deleteA":
				api1("DeletePeer(A)", func() error {
					return w.s.DeletePeer(context.Background(), &api.DeletePeerRequest{Address: botA.addr().String()})
				})
			case "deleteB":
				api1("DeletePeer(B)", func() error {
					return w.s.DeletePeer(context.Background(), &api.DeletePeerRequest{Address: botB.addr().String()})
				})
			case "disableA":
				api1("DisablePeer(A)", func() error {
					return w.s.DisablePeer(context.Background(), &api.DisablePeerRequest{Address: botA.addr().String()})
				})
			case "closeA":
				if ra != nil {
					ra.mu.Lock()
					ra.selfClose = true
					ra.mu.Unlock()
					ra.conn.Close()
				}
			case "rest":
				for done < len(steps) {
					steps[done]()
					done++
					synctest.Wait()
				}
			}
			synctest.Wait()
		}
		park.freeze()
		hmu.Lock()
		armed = false
		hmu.Unlock()
		close(park.release)
		synctest.Wait()
		w.advance(10 * time.Second)

		bad := func(key, format string, a ...any) {
			res.problems = append(res.problems, key+"|"+fmt.Sprintf(format, a...))
		}
		if !stopped {
			stopBgp()
			synctest.Wait()
			w.advance(10 * time.Second)
		}
		for _, cl := range calls {
			if !cl.done.Load() {
				bad("api-call-does-not-return:"+cl.name, "%s has not returned 10 s (virtual) after the held goroutine was released", cl.name)
			}
			if p := cl.pn.Load(); p != nil {
				bad("api-call-panics:"+cl.name, "%s panicked: %v", cl.name, p)
			}
		}
		for _, r := range remotes {
			r.resume()
		}
		synctest.Wait()
		for i, r := range remotes {
			if !r.closed() {
				types, _ := r.messages()
				bad("connection-survives-stopbgp", "connection %d is still open 10 s after StopBgp (the daemon wrote message types %v)", i, types)
			}
		}
		for _, r := range remotes {
			r.shut()
		}
		if w.s.bfdServer != nil {
			w.s.bfdServer.Stop()
		}
		synctest.Wait()
		time.Sleep(time.Hour + time.Minute) // whatever timer a straggler waits for has fired by now
		synctest.Wait()
		// census: goroutines of this bubble other than this one
		buf := make([]byte, 1<<20)
		buf = buf[:runtime.Stack(buf, true)]
		self := true
		var left []string
		for _, g := range strings.Split(string(buf), "\n\n") {
			if self { // the first block is the calling goroutine
				self = false
				continue
			}
			lines := strings.Split(g, "\n")
			if len(lines) < 2 || !strings.Contains(lines[0], "synctest bubble") {
				continue
			}
			f := strings.TrimSpace(lines[1])
			for k := 1; k < len(lines) && k < 13; k += 2 {
				x := strings.TrimSpace(lines[k])
				if j := strings.LastIndex(x, "("); j > 0 {
					x = x[:j]
				}
				if x != "" && !strings.HasPrefix(x, "runtime.") && !strings.HasPrefix(x, "internal/") && !strings.HasPrefix(x, "sync.") && !strings.HasPrefix(x, "time.") {
					f = x
					break
				}
			}
			if strings.HasPrefix(f, "testing/") || strings.HasPrefix(f, "testing.") {
				continue // the test's own goroutines waiting for this bubble
			}
			left = append(left, f)
		}
		if len(left) > 0 {
			sort.Strings(left)
			res.leak = true
			bad("goroutine-left-after-stopbgp:"+strings.Join(left, "+"), "%d goroutine(s) of the bubble are still alive an hour after StopBgp: %v", len(left), left)
		}
		res.records = park.n
		res.parkedAt = park.parkedAt
		res.skipped = skip > 0
	})
	return res
}

var _ net.Conn

func c20pJudge(r *vr.Report, t *testing.T, c c20pCase) c20pResult {
	r.Eval()
	res := c20pRun(t, c)
	site := "none"
	if c.Park >= 0 {
		site = "not-reached"
		if res.reached {
			site = res.parkedAt
		} else if res.skipped {
			site = "skipped-under-lock"
		}
	}
	r.NT(fmt.Sprintf("%s/%s", site, c.X))
	r.Outcome(fmt.Sprintf("%s:%s", c.X, site))
	r.Transitions++
	for _, p := range res.problems {
		k, txt, _ := strings.Cut(p, "|")
		r.Violationf("C20:park:"+k+":"+c.X+":"+strings.ReplaceAll(strings.TrimPrefix(res.parkedAt, "log:"), " ", "-"), c, "%s (held at %q): %s", c, res.parkedAt, txt)
	}
	return res
}

func TestVerif_C20_Park(t *testing.T) {
	r := vr.Start(t, "C20", "park")
	defer r.Finish()
	r.Rule = "whole daemon, two passive peers; script: both sessions established, UPDATE / withdrawal / UPDATE from A (propagated to B), B closes; every record the daemon logs and every Write / Close it issues on a connection on the way: the goroutine emitting it held there x meanwhile {nothing, StopBgp, StopBgp leaving the sessions to graceful restart, DeletePeer(A), DeletePeer(B), DisablePeer(A), A closes, the rest of the script}; then release, 10 s, StopBgp, 10 s, 1 h; oracle: every API call returned, every connection closed by the daemon, no goroutine of the bubble left (nothing drained by the harness), no panic; + two undisturbed cases with a peer that stops reading while routes for it pile up, then StopBgp without / with graceful restart; non-trivial = distinct (park site, perturbation)"
	r.Assumptions = append(r.Assumptions, "park sites are the daemon's log records and its Write / Close calls on the (harness-owned) connections; sites reached with a peer's FSM lock or the table lock taken are skipped (counted in extra.skipped_under_lock)")
	if r.ReplayPath() != "" {
		var c c20pCase
		if err := r.LoadReplay(&c); err != nil {
			t.Fatal(err)
		}
		c20pJudge(r, t, c)
		return
	}
	var progress atomic.Int64
	var current atomic.Value
	go func() {
		last, since := int64(-1), time.Now()
		for {
			time.Sleep(2 * time.Second)
			if p := progress.Load(); p != last {
				last, since = p, time.Now()
				continue
			}
			if time.Since(since) > 90*time.Second {
				r.Cap(fmt.Sprintf("case never became quiescent (wall-clock watchdog, 90 s): %v; the exploration stopped there", current.Load()))
				r.Finish()
				os.Exit(0)
			}
		}
	}()
	sites := map[string]bool{}
	occ := map[int]bool{}
	skipped := 0
	run := func(c c20pCase) c20pResult {
		current.Store(c.String())
		res := c20pJudge(r, t, c)
		progress.Add(1)
		if res.leak {
			// the bubble cannot end with goroutines left in it: the report is written and the part stops here
			r.Cap("a goroutine leak ends the exploration (the bubble cannot be left): " + c.String())
			r.Finish()
			os.Exit(0)
		}
		return res
	}
	// a peer that is stuck (stops reading while routes for it pile up), then the daemon is stopped - with and without
	// leaving the sessions to graceful restart
	run(c20pCase{Park: -1, X: "stall-stop"})
	run(c20pCase{Park: -1, X: "stall-stopgr"})
	base := run(c20pCase{Park: -1, X: "none"})
	k := base.records
	for p := 0; p < k+6; p++ {
		any := false
		for _, x := range []string{"none", "stopbgp", "stopbgp-gr", "deleteA", "deleteB", "disableA", "closeA", "rest"} {
			res := run(c20pCase{Park: p, X: x})
			if res.reached {
				any = true
				occ[p] = true
				sites[res.parkedAt] = true
			} else if res.skipped {
				skipped++
				any = true
			}
		}
		if !any && p >= k {
			break
		}
	}
	var names []string
	for s := range sites {
		names = append(names, s)
	}
	sort.Strings(names)
	r.States = int64(len(sites))
	r.Bounds = map[string]any{"perturbations": 8, "park_sites_distinct": len(sites), "park_occurrences_held": len(occ), "records_in_undisturbed_run": k}
	r.Extra = map[string]any{"park_sites": names, "skipped_under_lock": skipped}
	if len(occ) < 6 {
		t.Fatalf("ENGINE-ERROR vacuous exploration: a goroutine was held at only %d record occurrences (%v)", len(occ), names)
	}
}
