// Package vsync mirrors the parts of package sync that gobgp uses. With no scheduler installed
// (sched.Active == nil, or the caller is not a scheduled thread) every type behaves exactly like the
// real one. Under the E-SCHED scheduler, lock state is kept logically (only one thread runs at a time),
// every acquisition is a scheduling point, and a thread that cannot acquire is *disabled* rather than
// blocked in the runtime — which is what makes deadlocks detectable.
package vsync

import (
	"sync"
	"unsafe"

	"github.com/osrg/gobgp/v4/internal/verif/sched"
)

type Locker = sync.Locker

func inThread() *sched.Sched {
	if s := sched.Active; s != nil && s.InThread() {
		return s
	}
	return nil
}

// ---- Mutex ----

type Mutex struct {
	mu    sync.Mutex
	lheld bool // held logically (acquired under the scheduler)
}

func (m *Mutex) Lock() {
	if s := inThread(); s != nil {
		s.PointObj("mutex.lock", uintptr(unsafe.Pointer(m)), true)
		if m.lheld {
			s.Block("mutex", func() bool { return !m.lheld })
		}
		m.lheld = true
		return
	}
	m.mu.Lock()
}

func (m *Mutex) TryLock() bool {
	if s := inThread(); s != nil {
		s.PointObj("mutex.trylock", uintptr(unsafe.Pointer(m)), true)
		if m.lheld {
			return false
		}
		m.lheld = true
		return true
	}
	return m.mu.TryLock()
}

func (m *Mutex) Unlock() {
	if m.lheld {
		m.lheld = false
		return
	}
	m.mu.Unlock()
}

// ---- RWMutex ----

type RWMutex struct {
	mu       sync.RWMutex
	lwriter  bool
	lreaders int
	// writers blocked in Lock: as in Go's RWMutex ("a blocked Lock call excludes new readers from
	// acquiring the lock") they hold back new readers, so a read lock taken recursively while a writer
	// waits is a deadlock here as it is in the real thing.
	lwaiters int
}

func (m *RWMutex) Lock() {
	if s := inThread(); s != nil {
		s.PointObj("rw.lock", uintptr(unsafe.Pointer(m)), true)
		if m.lwriter || m.lreaders > 0 {
			m.lwaiters++
			s.Block("rw.lock", func() bool { return !m.lwriter && m.lreaders == 0 })
			m.lwaiters--
		}
		m.lwriter = true
		return
	}
	m.mu.Lock()
}

func (m *RWMutex) Unlock() {
	if m.lwriter {
		m.lwriter = false
		return
	}
	m.mu.Unlock()
}

func (m *RWMutex) RLock() {
	if s := inThread(); s != nil {
		s.PointObj("rw.rlock", uintptr(unsafe.Pointer(m)), false)
		if m.lwriter || m.lwaiters > 0 {
			s.Block("rw.rlock", func() bool { return !m.lwriter && m.lwaiters == 0 })
		}
		m.lreaders++
		return
	}
	m.mu.RLock()
}

func (m *RWMutex) RUnlock() {
	if m.lreaders > 0 {
		m.lreaders--
		return
	}
	m.mu.RUnlock()
}

func (m *RWMutex) TryLock() bool {
	if s := inThread(); s != nil {
		s.PointObj("rw.trylock", uintptr(unsafe.Pointer(m)), true)
		if m.lwriter || m.lreaders > 0 {
			return false
		}
		m.lwriter = true
		return true
	}
	return m.mu.TryLock()
}

func (m *RWMutex) TryRLock() bool {
	if s := inThread(); s != nil {
		s.PointObj("rw.tryrlock", uintptr(unsafe.Pointer(m)), false)
		if m.lwriter || m.lwaiters > 0 {
			return false
		}
		m.lreaders++
		return true
	}
	return m.mu.TryRLock()
}

func (m *RWMutex) RLocker() Locker { return (*rlocker)(m) }

type rlocker RWMutex

func (r *rlocker) Lock()   { (*RWMutex)(r).RLock() }
func (r *rlocker) Unlock() { (*RWMutex)(r).RUnlock() }

// ---- WaitGroup ----

type WaitGroup struct {
	wg sync.WaitGroup
	ln int // logical count of Adds made under the scheduler
}

func (w *WaitGroup) Add(n int) {
	if s := inThread(); s != nil {
		w.ln += n
		return
	}
	w.wg.Add(n)
}

func (w *WaitGroup) Done() {
	if w.ln > 0 {
		w.ln--
		return
	}
	w.wg.Done()
}

func (w *WaitGroup) Wait() {
	if s := inThread(); s != nil {
		s.PointObj("wg.wait", uintptr(unsafe.Pointer(w)), true)
		if w.ln > 0 {
			s.Block("wg", func() bool { return w.ln == 0 })
		}
		return
	}
	w.wg.Wait()
}

func (w *WaitGroup) Go(f func()) {
	w.Add(1)
	go func() {
		defer w.Done()
		f()
	}()
}

// ---- Once ----

type Once struct {
	once    sync.Once
	ldone   bool
	lrunnig bool
}

func (o *Once) Do(f func()) {
	if s := inThread(); s != nil {
		s.PointObj("once.do", uintptr(unsafe.Pointer(o)), true)
		if o.ldone {
			return
		}
		if o.lrunnig {
			s.Block("once", func() bool { return o.ldone })
			return
		}
		o.lrunnig = true
		defer func() { o.ldone = true; o.lrunnig = false }()
		o.once.Do(f)
		return
	}
	o.once.Do(func() { f(); o.ldone = true })
}

// ---- Map: the real one, with a scheduling point before every operation ----

type Map struct {
	m sync.Map
}

func pt(op string, obj unsafe.Pointer, write bool) {
	if s := inThread(); s != nil {
		s.PointObj(op, uintptr(obj), write)
	}
}

func (m *Map) Load(k any) (any, bool)      { pt("map.load", unsafe.Pointer(m), false); return m.m.Load(k) }
func (m *Map) Store(k, v any)              { pt("map.store", unsafe.Pointer(m), true); m.m.Store(k, v) }
func (m *Map) Delete(k any)                { pt("map.delete", unsafe.Pointer(m), true); m.m.Delete(k) }
func (m *Map) Clear()                      { pt("map.clear", unsafe.Pointer(m), true); m.m.Clear() }
func (m *Map) Range(f func(k, v any) bool) { pt("map.range", unsafe.Pointer(m), false); m.m.Range(f) }
func (m *Map) LoadOrStore(k, v any) (any, bool) {
	pt("map.loadorstore", unsafe.Pointer(m), true)
	return m.m.LoadOrStore(k, v)
}
func (m *Map) LoadAndDelete(k any) (any, bool) {
	pt("map.loadanddelete", unsafe.Pointer(m), true)
	return m.m.LoadAndDelete(k)
}
func (m *Map) Swap(k, v any) (any, bool) {
	pt("map.swap", unsafe.Pointer(m), true)
	return m.m.Swap(k, v)
}
func (m *Map) CompareAndSwap(k, o, n any) bool {
	pt("map.cas", unsafe.Pointer(m), true)
	return m.m.CompareAndSwap(k, o, n)
}
func (m *Map) CompareAndDelete(k, o any) bool {
	pt("map.cad", unsafe.Pointer(m), true)
	return m.m.CompareAndDelete(k, o)
}

// Pool and Cond are not used by the rewritten packages; aliases keep the shim complete.
type Pool = sync.Pool
type Cond = sync.Cond

func NewCond(l Locker) *Cond { return sync.NewCond(l) }

func OnceFunc(f func()) func() { return sync.OnceFunc(f) }
