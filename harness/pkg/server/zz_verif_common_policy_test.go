package server

import (
	"context"
	"fmt"

	api "github.com/osrg/gobgp/v4/api"
	"github.com/osrg/gobgp/v4/internal/pkg/table"
)

const simNPol = 7

// simPolicy returns the catalogue entry k as API objects (nil = no policy).
func simPolicy(k int, name string) ([]*api.DefinedSet, *api.Policy) {
	st := &api.Statement{Name: name + "-st", Conditions: &api.Conditions{}, Actions: &api.Actions{}}
	var sets []*api.DefinedSet
	switch k {
	case 0:
		return nil, nil
	case 1: // reject prefix 0
		sets = append(sets, &api.DefinedSet{DefinedType: api.DefinedType_DEFINED_TYPE_PREFIX, Name: name + "-ps",
			Prefixes: []*api.Prefix{{IpPrefix: simPrefixes[0], MaskLengthMin: 24, MaskLengthMax: 24}}})
		st.Conditions.PrefixSet = &api.MatchSet{Type: api.MatchSet_TYPE_ANY, Name: name + "-ps"}
		st.Actions.RouteAction = api.RouteAction_ROUTE_ACTION_REJECT
	case 2: // reject community 65000:77 (carried by route variant 1)
		sets = append(sets, &api.DefinedSet{DefinedType: api.DefinedType_DEFINED_TYPE_COMMUNITY, Name: name + "-cs", List: []string{"^65000:77$"}})
		st.Conditions.CommunitySet = &api.MatchSet{Type: api.MatchSet_TYPE_ANY, Name: name + "-cs"}
		st.Actions.RouteAction = api.RouteAction_ROUTE_ACTION_REJECT
	case 3: // set MED
		st.Actions.Med = &api.MedAction{Type: api.MedAction_TYPE_REPLACE, Value: 500}
		st.Actions.RouteAction = api.RouteAction_ROUTE_ACTION_ACCEPT
	case 4: // prepend
		st.Actions.AsPrepend = &api.AsPrependAction{Asn: 65099, Repeat: 1}
		st.Actions.RouteAction = api.RouteAction_ROUTE_ACTION_ACCEPT
	case 5: // add community
		st.Actions.Community = &api.CommunityAction{Type: api.CommunityAction_TYPE_ADD, Communities: []string{"65000:99"}}
		st.Actions.RouteAction = api.RouteAction_ROUTE_ACTION_ACCEPT
	case 6: // remove community 65000:77 (the first of the two that route variant 1 carries)
		st.Actions.Community = &api.CommunityAction{Type: api.CommunityAction_TYPE_REMOVE, Communities: []string{"^65000:77$"}}
		st.Actions.RouteAction = api.RouteAction_ROUTE_ACTION_ACCEPT
	}
	return sets, &api.Policy{Name: name, Statements: []*api.Statement{st}}
}

// simSetPolicies replaces the whole policy configuration: catalogue entry imp as global import
// policy, entry exp as global export policy.
func simSetPolicies(w *simWorld, imp, exp int) {
	req := &api.SetPoliciesRequest{}
	for _, d := range []struct {
		k    int
		name string
		dir  api.PolicyDirection
	}{{imp, "imp", api.PolicyDirection_POLICY_DIRECTION_IMPORT}, {exp, "exp", api.PolicyDirection_POLICY_DIRECTION_EXPORT}} {
		sets, pol := simPolicy(d.k, d.name)
		req.DefinedSets = append(req.DefinedSets, sets...)
		as := &api.PolicyAssignment{Name: table.GLOBAL_RIB_NAME, Direction: d.dir, DefaultAction: api.RouteAction_ROUTE_ACTION_ACCEPT}
		if pol != nil {
			req.Policies = append(req.Policies, pol)
			as.Policies = []*api.Policy{pol}
		}
		req.Assignments = append(req.Assignments, as)
	}
	w.must(w.s.SetPolicies(context.Background(), req))
	// SetPolicies replaces the policies and defined sets but keeps the assignments that existed
	// (the request's assignments are not read): attach them explicitly, and make sure they are there
	for _, as := range req.Assignments {
		w.must(w.s.SetPolicyAssignment(context.Background(), &api.SetPolicyAssignmentRequest{Assignment: as}))
	}
	for _, d := range []struct {
		k   int
		dir table.PolicyDirection
	}{{imp, table.POLICY_DIRECTION_IMPORT}, {exp, table.POLICY_DIRECTION_EXPORT}} {
		want := 1
		if d.k == 0 {
			want = 0
		}
		if _, pl, err := w.s.policy.GetPolicyAssignment(table.GLOBAL_RIB_NAME, d.dir); err != nil || len(pl) != want {
			panic(fmt.Sprintf("sim: policy assignment not in place (direction %v: %d policies, want %d, err %v)", d.dir, len(pl), want, err))
		}
	}
}
