package table

// C02 part "bucket" — the table stores destinations in hash buckets keyed by a 64-bit FNV-1a of the NLRI; two
// prefixes with the same key share a bucket. Two keys that are FORCED to collide (an IPv6 pair found by a
// distinguished-point search; the collision is asserted first) plus a third prefix that does not: every
// sequence of announce / withdraw operations up to the stated length from two peers is applied to the real
// Loc-RIB table (TableManager.Update) and to an Adj-RIB-In (AdjRib.Update), and after every step everything
// the table can be asked (destinations, best paths, known paths, counters) is compared with a plain map.

import (
	"fmt"
	"io"
	"log/slog"
	"net/netip"
	"sort"
	"strings"
	"testing"
	"time"

	"github.com/osrg/gobgp/v4/internal/verif/vr"
	"github.com/osrg/gobgp/v4/pkg/packet/bgp"
)

var c02bLogger = slog.New(slog.NewTextHandler(io.Discard, &slog.HandlerOptions{Level: slog.LevelError}))

var c02bPrefixes = []string{"2001:db8::e35f:7abc:b8d9:c9b0/128", "2001:db8::9151:51de:6c00:fd1e/128", "2001:db8:1::/48"}

type c02bOp struct {
	Peer, Pfx int
	Withdraw  bool
}

func (o c02bOp) String() string {
	k := "announce"
	if o.Withdraw {
		k = "withdraw"
	}
	return fmt.Sprintf("%s(peer%d,%s)", k, o.Peer, c02bPrefixes[o.Pfx])
}

type c02bCase struct {
	Ops []c02bOp `json:"ops"`
}

func c02bNLRI(i int) bgp.NLRI {
	n, err := bgp.NewIPAddrPrefix(netip.MustParsePrefix(c02bPrefixes[i]))
	if err != nil {
		panic(err)
	}
	return n
}

func c02bPeers() []*PeerInfo {
	var out []*PeerInfo
	for i := 0; i < 2; i++ {
		out = append(out, &PeerInfo{AS: uint32(65001 + i), LocalAS: 65000, ID: netip.MustParseAddr(fmt.Sprintf("1.1.1.%d", i+1)), LocalID: netip.MustParseAddr("10.0.0.254"),
			Address: netip.MustParseAddr(fmt.Sprintf("2001:db8:ffff::%d", i+1))})
	}
	return out
}

func c02bPath(peer *PeerInfo, pi, pfx int, withdraw bool) *Path {
	mp, err := bgp.NewPathAttributeMpReachNLRI(bgp.RF_IPv6_UC, []bgp.PathNLRI{{NLRI: c02bNLRI(pfx)}}, peer.Address)
	if err != nil {
		panic(err)
	}
	attrs := []bgp.PathAttributeInterface{bgp.NewPathAttributeOrigin(0),
		bgp.NewPathAttributeAsPath([]bgp.AsPathParamInterface{bgp.NewAs4PathParam(bgp.BGP_ASPATH_ATTR_TYPE_SEQ, []uint32{peer.AS})}), mp}
	return NewPath(bgp.RF_IPv6_UC, peer, bgp.PathNLRI{NLRI: c02bNLRI(pfx)}, withdraw, attrs, time.Unix(1000+int64(pi), 0), false)
}

func c02bRun(r *vr.Report, ops []c02bOp) {
	r.Eval()
	peers := c02bPeers()
	tm := NewTableManager(c02bLogger, []bgp.Family{bgp.RF_IPv6_UC})
	adj := []*AdjRib{NewAdjRib(c02bLogger, []bgp.Family{bgp.RF_IPv6_UC}), NewAdjRib(c02bLogger, []bgp.Family{bgp.RF_IPv6_UC})}
	model := map[string]bool{} // "peer|prefix"
	text := func(k int) string {
		var s []string
		for _, o := range ops[:k+1] {
			s = append(s, o.String())
		}
		return strings.Join(s, ", ")
	}
	for k, o := range ops {
		p := c02bPath(peers[o.Peer], o.Peer, o.Pfx, o.Withdraw)
		adj[o.Peer].Update([]*Path{p})
		tm.Update(p)
		key := fmt.Sprintf("%d|%s", o.Peer, c02bNLRI(o.Pfx))
		if o.Withdraw {
			delete(model, key)
		} else {
			model[key] = true
		}
		bad := func(cls, format string, a ...any) {
			r.Violationf("C02:bucket:"+cls, c02bCase{append([]c02bOp{}, ops[:k+1]...)}, "after [%s]: %s", text(k), fmt.Sprintf(format, a...))
		}
		// Loc-RIB
		wantDst := map[string]int{}
		for m := range model {
			wantDst[strings.SplitN(m, "|", 2)[1]]++
		}
		t := tm.tables[bgp.RF_IPv6_UC]
		var dsts []string
		known := 0
		for _, d := range t.GetDestinations() {
			dsts = append(dsts, d.GetNlri().String())
			known += len(d.GetAllKnownPathList())
			if n := len(d.GetAllKnownPathList()); n != wantDst[d.GetNlri().String()] {
				bad("known-paths-of-destination", "destination %s holds %d paths, the model %d", d.GetNlri(), n, wantDst[d.GetNlri().String()])
			}
		}
		sort.Strings(dsts)
		var want []string
		for d := range wantDst {
			want = append(want, d)
		}
		sort.Strings(want)
		if fmt.Sprint(dsts) != fmt.Sprint(want) {
			bad("destinations", "GetDestinations() = %v, the model holds %v", dsts, want)
		}
		var best []string
		for _, p := range tm.GetBestPathList(GLOBAL_RIB_NAME, 0, []bgp.Family{bgp.RF_IPv6_UC}) {
			best = append(best, p.GetNlri().String())
		}
		sort.Strings(best)
		if fmt.Sprint(best) != fmt.Sprint(want) {
			bad("best-path-list", "GetBestPathList() = %v, the model holds %v", best, want)
		}
		if n := len(tm.GetPathList(GLOBAL_RIB_NAME, 0, []bgp.Family{bgp.RF_IPv6_UC})); n != len(model) {
			bad("path-list", "GetPathList() returns %d paths, the model holds %d", n, len(model))
		}
		if info := t.Info(); info.NumDestination != len(want) || info.NumPath != len(model) {
			bad("table-info", "Info() says %d destinations / %d paths, the model %d / %d", info.NumDestination, info.NumPath, len(want), len(model))
		}
		// Adj-RIB-In per peer
		for pi, a := range adj {
			n := 0
			for m := range model {
				if strings.HasPrefix(m, fmt.Sprint(pi)+"|") {
					n++
				}
			}
			if c := a.Count([]bgp.Family{bgp.RF_IPv6_UC}); c != n {
				bad("adj-rib-in-count", "peer%d: Count() = %d, the model holds %d", pi, c, n)
			}
			if l := len(a.PathList([]bgp.Family{bgp.RF_IPv6_UC}, false)); l != n {
				bad("adj-rib-in-path-list", "peer%d: PathList() returns %d paths, the model holds %d", pi, l, n)
			}
		}
		r.Outcome(fmt.Sprintf("destinations=%d", len(want)))
	}
	r.NT(fmt.Sprint(ops))
}

func TestVerif_C02_Bucket(t *testing.T) {
	r := vr.Start(t, "C02", "bucket")
	defer r.Finish()
	r.Rule = "every sequence of <=L operations over {announce, withdraw} x 2 peers x 3 IPv6 prefixes, two of which have the same 64-bit table key (one hash bucket), applied to the real Loc-RIB table (TableManager.Update) and Adj-RIB-Ins (AdjRib.Update); after every step destinations, best paths, path lists and counters are compared with a plain map; non-trivial = distinct sequence"
	if tableKey(c02bNLRI(0)) != tableKey(c02bNLRI(1)) {
		t.Fatalf("ENGINE-ERROR the two prefixes no longer share a table key (the hash changed): a new colliding pair is needed")
	}
	if tableKey(c02bNLRI(0)) == tableKey(c02bNLRI(2)) {
		t.Fatalf("ENGINE-ERROR the control prefix collides as well")
	}
	if r.ReplayPath() != "" {
		var c c02bCase
		if err := r.LoadReplay(&c); err != nil {
			t.Fatal(err)
		}
		c02bRun(r, c.Ops)
		return
	}
	L := 4
	if vr.Thorough() {
		L = 5
	}
	r.Bounds["max_sequence_length"] = L
	var alpha []c02bOp
	for p := 0; p < 2; p++ {
		for x := range c02bPrefixes {
			alpha = append(alpha, c02bOp{p, x, false}, c02bOp{p, x, true})
		}
	}
	r.Bounds["alphabet"] = len(alpha)
	W := vr.Workers()
	r.Parallel(W, func(wk int, rep *vr.Report) {
		i := 0
		var rec func(ops []c02bOp)
		rec = func(ops []c02bOp) {
			if len(ops) == L {
				i++
				if i%W == wk {
					c02bRun(rep, ops)
				}
				return
			}
			for _, o := range alpha {
				rec(append(ops, o))
			}
		}
		rec(nil)
	})
}
