package bgp

// C06 part "classify" — malformed UPDATEs are answered per RFC 7606 / RFC 4271.
// E-SEQ: the byte-level fault catalogue of internal/verif/c06lib (every single fault, every pair of
// faults) applied to the base UPDATEs x {eBGP, iBGP, confederation member} x revised error handling
// {on, off}. Every case goes through the real decode + validate pipeline exactly as the receive path
// runs it (fsm.go recvMessageWithError / recvMessageloop: header, ParseBGPBody with the session
// options, handlingError, ValidateUpdateMsg only when the decoder reported nothing) and the resulting
// error-handling class and NOTIFICATION code/subcode are compared with c06lib.Ref (ref7606), an
// independent classifier of the raw bytes.

import (
	"fmt"
	"os"
	"runtime/debug"
	"sort"
	"strings"
	"sync"
	"testing"

	"github.com/osrg/gobgp/v4/internal/verif/c06lib"
	"github.com/osrg/gobgp/v4/internal/verif/vr"
)

type c06Case struct {
	Base    string   `json:"base"`
	Peer    int      `json:"peer"`
	Revised bool     `json:"revised"`
	Faults  []string `json:"faults"`
	NoV4    bool     `json:"no_v4,omitempty"` // session without IPv4-unicast (only for the 0/0 probe)
	Hex     string   `json:"hex,omitempty"`
}

type c06Got struct {
	Class       c06lib.Class
	Code, Sub   uint8
	RawSub      uint8  // subcode of the error that decided, also when it did not lead to a NOTIFICATION
	Stage       string // which stage produced the final class: decode / validate / none
	DecodeClass string
	Skipped     bool // ValidateUpdateMsg was not run because the decoder already reported something
	Msg         *BGPMessage
	ErrText     string
	Panic       string
	NotMsgErr   bool
}

func c06ClassOf(h ErrorHandling) c06lib.Class {
	switch h {
	case ERROR_HANDLING_NONE:
		return c06lib.None
	case ERROR_HANDLING_ATTRIBUTE_DISCARD:
		return c06lib.Discard
	case ERROR_HANDLING_TREAT_AS_WITHDRAW:
		return c06lib.TAW
	}
	return c06lib.Reset
}

// c06ReplicaSnippets are the statements of pkg/server/fsm.go (handlingError, recvMessageWithError,
// recvMessageloop) that c06HandlingError and c06Pipeline mirror, whitespace-normalised.
var c06ReplicaSnippets = []string{
	"if m.Header.Type == bgp.BGP_MSG_UPDATE && useRevisedError { factor := e.(*bgp.MessageError) handling = factor.ErrorHandling",
	"case bgp.ERROR_HANDLING_AFISAFI_DISABLE: handling = bgp.ERROR_HANDLING_SESSION_RESET } } else { handling = bgp.ERROR_HANDLING_SESSION_RESET } return handling",
	"if err != nil { if m == nil { handling = bgp.ERROR_HANDLING_SESSION_RESET } else { handling = h.handlingError(m, err, useRevisedError) }",
	"if handling == bgp.ERROR_HANDLING_NONE || handling == bgp.ERROR_HANDLING_ATTRIBUTE_DISCARD { ok, ve := bgp.ValidateUpdateMsg(body, rfMap, h.fsm.isEBGP, h.fsm.isConfed, h.allowLoopback) if !ok { if hv := h.handlingError(m, ve, useRevisedError); hv > handling { validationErr = ve handling = hv",
}

// c06ReplicaDrift reports which of the mirrored statements are no longer in the source of the receive
// path (the test runs in pkg/packet/bgp of the tree under test).
func c06ReplicaDrift() []string {
	src, err := os.ReadFile("../../server/fsm.go")
	if err != nil {
		return []string{"cannot read ../../server/fsm.go: " + err.Error()}
	}
	// drop comments, normalise whitespace
	var sb strings.Builder
	for _, l := range strings.Split(string(src), "\n") {
		if i := strings.Index(l, "//"); i >= 0 {
			l = l[:i]
		}
		sb.WriteString(l)
		sb.WriteString(" ")
	}
	norm := strings.Join(strings.Fields(sb.String()), " ")
	var missing []string
	for _, sn := range c06ReplicaSnippets {
		// logging statements between the mirrored ones are skipped by matching piecewise in order
		pos, ok := 0, true
		for _, piece := range strings.Split(sn, " handling = ") {
			i := strings.Index(norm[pos:], strings.TrimSpace(piece))
			if i < 0 {
				ok = false
				break
			}
			pos += i
		}
		if !ok {
			missing = append(missing, sn)
		}
	}
	return missing
}

// c06HandlingError is fsmHandler.handlingError (pkg/server/fsm.go) for an UPDATE.
func c06HandlingError(e *MessageError, revised bool) ErrorHandling {
	if revised {
		h := e.ErrorHandling
		if h == ERROR_HANDLING_AFISAFI_DISABLE {
			h = ERROR_HANDLING_SESSION_RESET
		}
		return h
	}
	return ERROR_HANDLING_SESSION_RESET
}

func c06RfMap(noV4 bool) map[Family]BGPAddPathMode {
	m := map[Family]BGPAddPathMode{RF_IPv6_UC: BGP_ADD_PATH_NONE}
	if !noV4 {
		m[RF_IPv4_UC] = BGP_ADD_PATH_NONE
	}
	return m
}

func c06PanicSite(stack string) string {
	for _, l := range strings.Split(stack, "\n") {
		l = strings.TrimSpace(l)
		if strings.Contains(l, "/pkg/packet/bgp/") && !strings.Contains(l, "zz_verif") {
			if i := strings.LastIndex(l, "/pkg/packet/bgp/"); i >= 0 {
				l = l[i+1:]
			}
			if j := strings.Index(l, " "); j > 0 {
				l = l[:j]
			}
			return l
		}
	}
	return "unknown-site"
}

// c06Pipeline runs the receive path's decode + validate steps on one raw message.
func c06Pipeline(raw []byte, pt c06lib.PeerType, revised, noV4 bool) (g c06Got) {
	defer func() {
		if r := recover(); r != nil {
			g.Panic = fmt.Sprintf("%v @ %s", r, c06PanicSite(string(debug.Stack())))
		}
	}()
	rf := c06RfMap(noV4)
	hd := &BGPHeader{}
	if err := hd.DecodeFromBytes(raw[:BGP_HEADER_LENGTH]); err != nil {
		g.Class, g.Stage, g.ErrText = c06lib.Reset, "header", err.Error()
		if me, ok := err.(*MessageError); ok {
			g.Code, g.Sub = me.TypeCode, me.SubTypeCode
		}
		return
	}
	m, err := ParseBGPBody(hd, raw[BGP_HEADER_LENGTH:], &MarshallingOption{AddPath: rf, Use2ByteAS: false, ExtendedMessage: false})
	g.Msg = m
	handling := ERROR_HANDLING_NONE
	g.DecodeClass = "none"
	if err != nil {
		me, ok := err.(*MessageError)
		if !ok {
			g.NotMsgErr, g.ErrText = true, err.Error()
			return
		}
		if m == nil {
			handling = ERROR_HANDLING_SESSION_RESET
		} else {
			handling = c06HandlingError(me, revised)
		}
		g.DecodeClass = c06ClassOf(handling).String()
		g.Stage, g.ErrText = "decode", me.Message
		g.Code, g.Sub = me.TypeCode, me.SubTypeCode
	}
	// mirrors recvMessageloop, case BGP_MSG_UPDATE (pkg/server/fsm.go, "if handling == bgp.ERROR_HANDLING_NONE ||
	// handling == bgp.ERROR_HANDLING_ATTRIBUTE_DISCARD {" ... "if hv := h.handlingError(m, ve, useRevisedError); hv >
	// handling {"): the attribute checks run when the decoder reported nothing or only discarded attributes, and
	// the stronger of the two reactions is kept (c06ReplicaDrift checks that those statements are still in the source)
	if handling == ERROR_HANDLING_NONE || handling == ERROR_HANDLING_ATTRIBUTE_DISCARD {
		ok, ve := ValidateUpdateMsg(m.Body.(*BGPUpdate), rf, pt != c06lib.IBGP, pt == c06lib.Confed, false)
		if !ok {
			me, isme := ve.(*MessageError)
			if !isme {
				g.NotMsgErr, g.ErrText = true, ve.Error()
				return
			}
			if hv := c06HandlingError(me, revised); hv > handling {
				handling = hv
				g.Stage, g.ErrText = "validate", me.Message
				g.Code, g.Sub = me.TypeCode, me.SubTypeCode
			}
		}
	} else {
		g.Skipped = true
	}
	if handling == ERROR_HANDLING_NONE {
		g.Stage = "none"
	}
	g.Class = c06ClassOf(handling)
	g.RawSub = g.Sub
	if g.Class != c06lib.Reset {
		g.Code, g.Sub = 0, 0
	}
	return
}

// c06ClassKey names the root cause of a class mismatch. For a pair of faults the key of a component
// fault is reused when that fault alone is already mishandled for the same reference rule, so that one
// defect does not fan out into one key per companion fault.
func c06ClassKey(cs c06Case, g c06Got, v c06lib.Verdict, components bool) string {
	pt := c06lib.PeerType(cs.Peer)
	mode := c06Mode(cs.Revised)
	if components && len(cs.Faults) == 2 {
		b := c06lib.BuildBase(cs.Base, pt, c06lib.MarkerNew)
		cat := c06lib.Catalogue(b, pt)
		for _, id := range cs.Faults {
			f, ok := c06lib.Lookup(cat, id)
			if !ok {
				continue
			}
			m, ok := c06lib.Build(b, f)
			if !ok {
				continue
			}
			raw := m.Bytes()
			g1 := c06Pipeline(raw, pt, cs.Revised, false)
			v1 := c06lib.Ref(raw[19:], pt, cs.Revised)
			if g1.Panic == "" && !g1.NotMsgErr && v1.Abstain == "" && !v1.Accept[g1.Class] && v1.Attr == v.Attr && v1.Rule == v.Rule {
				c1 := cs
				c1.Faults = []string{id}
				return c06ClassKey(c1, g1, v1, false)
			}
		}
	}
	key := fmt.Sprintf("C06:class:%s:%s:want=%s:got=%s:%s", v.Attr, v.Rule, v.Primary, g.Class, mode)
	switch {
	case g.Stage == "validate" && g.DecodeClass != "none" && g.Class > v.Primary:
		// the decoder had already rejected an attribute, and the validation stage, run over the half-decoded
		// attribute objects, asked for more than any error of the message calls for
		key = fmt.Sprintf("C06:validate-after-decode-error:%s:want=%s:got=%s", c06Sanitize(g.ErrText), v.Primary, g.Class)
	case v.Primary == c06lib.None:
		key = fmt.Sprintf("C06:penalised:%s:3/%d:got=%s:%s", g.Stage, g.Sub, g.Class, mode)
		if len(cs.Faults) == 1 {
			key = fmt.Sprintf("C06:penalised:%s:got=%s:%s", cs.Faults[0], g.Class, mode)
		}
	case g.Skipped && cs.Revised && g.Class < v.Primary && c06ValidateOnlyRules[v.Rule]:
		// the deciding error is one that only ValidateUpdateMsg looks for, and it was not run
		key = fmt.Sprintf("C06:strongest-wins:validation-skipped-after-decoder-%s:want=%s:got=%s", g.DecodeClass, v.Primary, g.Class)
	case v.Rule == "nlri-field" && g.Class == c06lib.TAW && c06Framing(v) != "":
		key = "C06:decoder-returns-before-nlri-field:nlri-error-unseen:want=reset:got=taw"
	case strings.HasPrefix(v.Attr, "MP_") && strings.HasPrefix(v.Rule, "mp-") && g.Class == c06lib.TAW && g.Stage == "decode" && g.RawSub == 4:
		key = "C06:mp-attr-flags-error-hides-value-errors:want=reset:got=taw"
	}
	return key
}

// c06Framing tells whether the reference saw the attribute block end inside a TLV.
func c06Framing(v c06lib.Verdict) string {
	for _, e := range v.Errs {
		if e.Rule == "attr-overrun" || e.Rule == "attr-underrun" {
			return "after-" + e.Rule
		}
	}
	return ""
}

// c06Sanitize turns an error message into a stable key fragment (digits and punctuation dropped).
func c06Sanitize(s string) string {
	var sb strings.Builder
	for _, c := range s {
		switch {
		case c >= 'a' && c <= 'z', c >= 'A' && c <= 'Z', c == '_':
			sb.WriteRune(c)
		case c == ' ':
			sb.WriteRune('-')
		}
	}
	x := sb.String()
	if len(x) > 60 {
		x = x[:60]
	}
	return x
}

// rules of the reference whose counterpart in gobgp lives in ValidateUpdateMsg / ValidateAttribute only
var c06ValidateOnlyRules = map[string]bool{"unrecognized-wellknown": true, "dup-mp": true, "dup": true, "missing": true, "value": true,
	"confed-segment-from-non-member": true}

func c06Mode(revised bool) string {
	if revised {
		return "7606-on"
	}
	return "7606-off"
}

func c06Named(m *BGPMessage) map[string]bool {
	out := map[string]bool{}
	if m == nil {
		return out
	}
	u, ok := m.Body.(*BGPUpdate)
	if !ok {
		return out
	}
	for _, n := range u.NLRI {
		out[n.NLRI.String()] = true
	}
	for _, a := range u.PathAttributes {
		if r, ok := a.(*PathAttributeMpReachNLRI); ok {
			for _, n := range r.Value {
				out[n.NLRI.String()] = true
			}
		}
	}
	return out
}

var (
	c06KeyMu     sync.Mutex
	c06KeyFaults = map[string]map[string]int{}
)

// c06Viol records a violation and, per key, how often each catalogue entry takes part in it.
func c06Viol(r *vr.Report, key string, cs c06Case, format string, a ...any) {
	r.Violationf(key, cs, format, a...)
	c06KeyMu.Lock()
	m := c06KeyFaults[key]
	if m == nil {
		m = map[string]int{}
		c06KeyFaults[key] = m
	}
	for _, f := range cs.Faults {
		m[f]++
	}
	if len(cs.Faults) == 1 {
		m["(single) "+cs.Faults[0]+" / "+c06lib.PeerType(cs.Peer).String()]++
	}
	c06KeyMu.Unlock()
}

// c06Check evaluates every oracle clause on one case.
func c06Check(r *vr.Report, cs c06Case, raw []byte) {
	r.Eval()
	pt := c06lib.PeerType(cs.Peer)
	mode := c06Mode(cs.Revised)
	cs.Hex = c06lib.Hex(raw)
	what := fmt.Sprintf("base %s, peer %s, %s, faults %v, message %s", cs.Base, pt, mode, cs.Faults, cs.Hex)
	g := c06Pipeline(raw, pt, cs.Revised, cs.NoV4)
	if g.Panic != "" {
		c06Viol(r, "C06:panic:"+g.Panic[strings.LastIndex(g.Panic, "@ ")+2:], cs, "decode/validate panicked (%s): %s", g.Panic, what)
		return
	}
	if g.NotMsgErr {
		c06Viol(r, "C06:error-not-MessageError", cs, "the pipeline returned an error that is not a *MessageError (%s); handlingError would panic on it: %s", g.ErrText, what)
		return
	}
	r.NT(cs.Base + "|" + pt.String() + "|" + mode + "|" + strings.Join(cs.Faults, "+"))
	r.Outcome(fmt.Sprintf("cases with %d fault(s)", len(cs.Faults)))
	if g.Class == c06lib.Reset && g.Code == 0 {
		c06Viol(r, fmt.Sprintf("C06:notif-0/0:%s", g.Stage), cs, "the session is reset with NOTIFICATION %d/%d (error %q), code 0 does not exist: %s", g.Code, g.Sub, g.ErrText, what)
		r.Outcome("notif-0/0")
		if cs.NoV4 {
			return
		}
	}
	if cs.NoV4 {
		r.Outcome("no-v4-session/got=" + g.Class.String())
		return
	}
	v := c06lib.Ref(raw[19:], pt, cs.Revised)
	if v.Abstain != "" {
		r.Outcome("ref-abstains")
		return
	}
	r.Outcome(fmt.Sprintf("%s want=%s got=%s", mode, v.Primary, g.Class))
	if len(v.Accept) > 1 {
		r.Outcome("ambiguous-rfc-text: more than one reaction accepted")
	}
	errs := fmt.Sprint(v.Errs)
	if !v.Accept[g.Class] {
		key := c06ClassKey(cs, g, v, true)
		c06Viol(r, key, cs, "reaction %s (stage %s, error %q) but %s require %s (accepted: %s; errors seen by the reference: %s): %s",
			g.Class, g.Stage, g.ErrText, "RFC 7606/4271", v.Primary, v.AcceptString(), errs, what)
		return
	}
	if g.Class == c06lib.Reset && g.Code != 0 {
		if g.Code != 3 || !v.Subs[g.Sub] {
			key := fmt.Sprintf("C06:notif:got=%d/%d:%s", g.Code, g.Sub, c06Sanitize(g.ErrText))
			if g.Stage == "validate" && g.DecodeClass != "none" {
				key = fmt.Sprintf("C06:validate-after-decode-error:%s:notif=%d/%d", c06Sanitize(g.ErrText), g.Code, g.Sub)
			}
			c06Viol(r, key, cs,
				"session reset is right but the NOTIFICATION is %d/%d (error %q); acceptable: 3/%s (errors seen by the reference: %s): %s",
				g.Code, g.Sub, g.ErrText, v.SubsString(), errs, what)
		}
		return
	}
	if g.Class == c06lib.Reset {
		return
	}
	u := g.Msg.Body.(*BGPUpdate)
	if g.Class == c06lib.TAW {
		// treat-as-withdraw: the decoded message must still name every prefix the UPDATE announces
		if v.NamedOK {
			have := c06Named(g.Msg)
			var lost4, lost6 []string
			for _, p := range v.Ann4 {
				if !have[p] {
					lost4 = append(lost4, p)
				}
			}
			for _, p := range v.Ann6 {
				if !have[p] {
					lost6 = append(lost6, p)
				}
			}
			r.Outcome("taw: named prefixes compared")
			if len(lost4) > 0 {
				c06Viol(r, "C06:taw-loses-prefixes:nlri-field:"+c06Framing(v), cs, "treat-as-withdraw, but the decoded UPDATE no longer names %v of its NLRI field (so they cannot be withdrawn): %s", lost4, what)
			}
			if len(lost6) > 0 {
				c06Viol(r, "C06:taw-loses-prefixes:mp-reach", cs, "treat-as-withdraw, but the decoded UPDATE no longer names %v of its MP_REACH_NLRI (so they cannot be withdrawn): %s", lost6, what)
			}
		}
		return
	}
	// none / attribute-discard: what is left in the message is what gets installed
	if !v.HasNLRI || len(u.NLRI)+len(c06Named(g.Msg)) == 0 {
		return
	}
	var blk []byte
	present := map[byte]int{}
	for _, a := range u.PathAttributes {
		b, err := a.Serialize()
		if err != nil {
			c06Viol(r, "C06:contained:attribute-does-not-serialise", cs, "attribute %v left in the message does not serialise (%v): %s", a.GetType(), err, what)
			return
		}
		blk = append(blk, b...)
		present[byte(a.GetType())]++
	}
	r.Outcome("install-list checked")
	var bad []string
	for t := range v.MustNotInstall {
		if present[t] > 0 {
			bad = append(bad, "malformed-"+c06lib.TypeName(t)+"-kept")
		}
	}
	bad = append(bad, c06lib.CheckInstalled(blk, len(u.NLRI) == 0, pt, false)...)
	if len(bad) > 0 {
		sort.Strings(bad)
		first := bad[0]
		if strings.HasSuffix(first, ":dup->discard") {
			first = "duplicate-kept"
		}
		key := "C06:contained:" + first
		if g.Skipped && (first == "duplicate-kept" || strings.HasPrefix(first, "missing:") || strings.Contains(first, ":value->") ||
			strings.Contains(first, "unrecognized-wellknown") || strings.Contains(first, "confed-segment")) {
			key += ":validation-skipped-after-decoder-" + g.DecodeClass
		}
		c06Viol(r, key, cs, "reaction %s (accepted), but the attribute list that will be installed is not clean: %v: %s", g.Class, bad, what)
	}
}

// c06Enumerate walks the case space in a fixed order; the message of a case is only built when the
// callback asks for it (workers skip the cases of other workers cheaply).
func c06Enumerate(bases []string, phase int, pairs func(base string, i, j int) bool, fn func(cs func() c06Case, build func() ([]byte, bool))) {
	for _, pt := range c06lib.PeerTypes {
		for _, bn := range bases {
			b := c06lib.BuildBase(bn, pt, c06lib.MarkerNew)
			cat := c06lib.Catalogue(b, pt)
			for _, revised := range []bool{true, false} {
				if phase == 1 {
					goto pairsOnly
				}
				fn(func() c06Case { return c06Case{Base: bn, Peer: int(pt), Revised: revised} }, func() ([]byte, bool) { return b.Msg.Bytes(), true })
				for i := range cat {
					fn(func() c06Case { return c06Case{Base: bn, Peer: int(pt), Revised: revised, Faults: []string{cat[i].ID}} },
						func() ([]byte, bool) {
							m, ok := c06lib.Build(b, cat[i])
							if !ok {
								return nil, false
							}
							return m.Bytes(), true
						})
				}
				continue
			pairsOnly:
				for i := range cat {
					for j := i + 1; j < len(cat); j++ {
						if !pairs(bn, i, j) {
							continue
						}
						fn(func() c06Case {
							return c06Case{Base: bn, Peer: int(pt), Revised: revised, Faults: []string{cat[i].ID, cat[j].ID}}
						}, func() ([]byte, bool) {
							m, ok := c06lib.Build(b, cat[i], cat[j])
							if !ok {
								return nil, false
							}
							return m.Bytes(), true
						})
					}
				}
			}
		}
	}
}

func TestVerif_C06_Classify(t *testing.T) {
	r := vr.Start(t, "C06", "classify")
	defer r.Finish()
	r.Rule = "base UPDATEs (raw bytes) x every single fault and every pair of faults of the byte-level catalogue x {eBGP, iBGP, confederation} x revised error handling {on, off}; each case through header decode + ParseBGPBody + (only if the decoder reported nothing) ValidateUpdateMsg as the receive path does; compared with ref7606 (class, NOTIFICATION subcode, prefixes still named under treat-as-withdraw, cleanliness of the attribute list that would be installed); non-trivial = distinct (base, peer type, mode, fault set) for which the pipeline returned a verdict without panicking"
	if r.ReplayPath() != "" {
		var cs c06Case
		if err := r.LoadReplay(&cs); err != nil {
			t.Fatal(err)
		}
		pt := c06lib.PeerType(cs.Peer)
		b := c06lib.BuildBase(cs.Base, pt, c06lib.MarkerNew)
		cat := c06lib.Catalogue(b, pt)
		var fs []c06lib.Fault
		for _, id := range cs.Faults {
			f, ok := c06lib.Lookup(cat, id)
			if !ok {
				t.Fatalf("ENGINE-ERROR unknown fault %q", id)
			}
			fs = append(fs, f)
		}
		m, ok := c06lib.Build(b, fs...)
		if !ok {
			t.Fatalf("ENGINE-ERROR faults not applicable")
		}
		c06Check(r, cs, m.Bytes())
		return
	}
	// quick: every single fault, and every pair whose first fault belongs to the compact bases or to
	// every 4th catalogue entry of the two large bases; thorough: every pair.
	stride := 4
	if vr.Thorough() {
		stride = 1
	}
	pairs := func(base string, i, j int) bool {
		if stride == 1 || !strings.HasPrefix(base, "v4full") {
			return true
		}
		return i%stride == 0
	}
	r.Bounds["bases"] = c06lib.BaseNames
	r.Bounds["peer_types"] = 3
	r.Bounds["modes"] = 2
	r.Bounds["faults_per_case"] = 2
	r.Bounds["pair_first_fault_stride_on_v4full_bases"] = stride
	r.Bounds["session"] = "4-octet AS, no ADD-PATH, no extended message, IPv4+IPv6 unicast negotiated"
	sizes := map[string]int{}
	for _, pt := range c06lib.PeerTypes {
		for _, bn := range c06lib.BaseNames {
			sizes[bn+"/"+pt.String()] = len(c06lib.Catalogue(c06lib.BuildBase(bn, pt, c06lib.MarkerNew), pt))
		}
	}
	r.Extra["single_faults_per_base"] = sizes
	if drift := c06ReplicaDrift(); len(drift) > 0 {
		r.Cap(fmt.Sprintf("the pipeline replica of this part no longer mirrors pkg/server/fsm.go (statements not found: %q); its verdicts hold for the mirrored logic only, part effect runs the real code", drift))
	}
	W := vr.Workers()
	// phase 0: the well-formed bases and every single fault (so that the case kept for a violation key is a
	// single fault whenever one suffices); phase 1: the pairs
	for phase := 0; phase < 2; phase++ {
		r.Parallel(W, func(w int, c *vr.Report) {
			n := 0
			c06Enumerate(c06lib.BaseNames, phase, pairs, func(mk func() c06Case, build func() ([]byte, bool)) {
				n++
				if n%W != w {
					return
				}
				raw, ok := build()
				if !ok {
					c.Outcome("fault pair not applicable together (skipped)")
					return
				}
				cs := mk()
				c06Check(c, cs, raw)
				if c.WantSample() && (n%40009 == 0 || (len(cs.Faults) == 1 && n%97 == 0)) {
					cs.Hex = c06lib.Hex(raw)
					c.Sample(cs)
				}
			})
		})
	}
	// the NOTIFICATION 0/0 probe: an UPDATE with IPv4 NLRI on a session that did not negotiate IPv4 unicast
	for _, pt := range c06lib.PeerTypes {
		b := c06lib.BuildBase("v4min", pt, c06lib.MarkerNew)
		c06Check(r, c06Case{Base: "v4min", Peer: int(pt), Revised: true, NoV4: true}, b.Msg.Bytes())
	}
	top := map[string][]string{}
	for k, m := range c06KeyFaults {
		var ids []string
		for id := range m {
			ids = append(ids, id)
		}
		sort.Slice(ids, func(i, j int) bool {
			si, sj := strings.HasPrefix(ids[i], "(single)"), strings.HasPrefix(ids[j], "(single)")
			if si != sj {
				return si
			}
			if m[ids[i]] != m[ids[j]] {
				return m[ids[i]] > m[ids[j]]
			}
			return ids[i] < ids[j]
		})
		if len(ids) > 12 {
			ids = ids[:12]
		}
		for _, id := range ids {
			top[k] = append(top[k], fmt.Sprintf("%s x%d", id, m[id]))
		}
	}
	r.Extra["faults_per_violation_key"] = top
	for _, k := range []string{"7606-on want=none got=none", "7606-on want=discard got=discard", "7606-on want=taw got=taw", "7606-on want=reset got=reset", "7606-off want=reset got=reset"} {
		if r.Outcomes[k] == 0 {
			t.Fatalf("ENGINE-ERROR vacuous: outcome %q never seen: %v", k, r.Outcomes)
		}
	}
}
