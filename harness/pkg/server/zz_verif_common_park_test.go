package server

// Park sites (DESIGN 11.2): the daemon's logger is supplied by the harness, so every log record is a point at
// which the goroutine that emits it can be HELD (a channel receive inside the synctest bubble: durably blocked)
// while the harness does something else, and released afterwards. Shared by C07 parts handover / park and C20
// part park.

import (
	"bytes"
	"context"
	"encoding/binary"
	"fmt"
	"log/slog"
	"net"
	"os"
	"sync"
	"syscall"
	"testing"
	"testing/synctest"
	"time"

	"github.com/osrg/gobgp/v4/pkg/packet/bgp"
)

type simPark struct {
	mu       sync.Mutex
	want     int // record index to park at (-1: none)
	n        int
	frozen   bool // records after the stop was issued are not counted and never park
	reached  chan struct{}
	release  chan struct{}
	records  []string
	parkedAt string
}

func (p *simPark) site(msg string) {
	p.mu.Lock()
	if p.frozen {
		p.mu.Unlock()
		return
	}
	i := p.n
	p.n++
	p.records = append(p.records, msg)
	hit := i == p.want
	if hit {
		p.parkedAt = msg
		p.frozen = true
	}
	p.mu.Unlock()
	if hit {
		close(p.reached)
		<-p.release
	}
}

func (p *simPark) freeze() {
	p.mu.Lock()
	p.frozen = true
	p.mu.Unlock()
}

type simParkAll struct{ p *simPark }

func (h simParkAll) Enabled(context.Context, slog.Level) bool { return true }
func (h simParkAll) WithAttrs([]slog.Attr) slog.Handler       { return h }
func (h simParkAll) WithGroup(string) slog.Handler            { return h }
func (h simParkAll) Handle(_ context.Context, r slog.Record) error {
	h.p.site("log:" + r.Message)
	return nil
}

// simParkConn is the daemon's end of a harness-owned connection: the daemon's Write, Close and Read calls are
// park sites as well (held BEFORE a write / close takes effect, AFTER a read returned data).
type simParkConn struct {
	*simConn
	h simParkHandler
}

func (c *simParkConn) Write(b []byte) (int, error) {
	kind := "?"
	if len(b) >= 19 {
		kind = map[byte]string{1: "open", 2: "update", 3: "notification", 4: "keepalive", 5: "route-refresh"}[b[18]]
	}
	c.h.at("conn:write:" + kind)
	return c.simConn.Write(b)
}

// Read: the goroutine is held AFTER the bytes arrived (it has them in hand and has not acted on them yet).
func (c *simParkConn) Read(b []byte) (int, error) {
	n, err := c.simConn.Read(b)
	if n > 0 {
		c.h.at("conn:read")
	}
	return n, err
}

func (c *simParkConn) Close() error {
	c.h.at("conn:close")
	return c.simConn.Close()
}

var _ syscall.Conn = (*simParkConn)(nil)

// simParkRemote is the remote end of one dialled connection: it accumulates everything the daemon writes.
type simParkRemote struct {
	conn      net.Conn
	mu        sync.Mutex
	buf       bytes.Buffer
	eof       bool
	selfClose bool
	acted     bool
	stallCh   chan struct{} // non-nil: the remote has stopped reading (a peer that is stuck) until it is closed
	sentNotif bool // the remote itself has sent a NOTIFICATION on it: the session is over by the remote's doing
	q         chan []byte // writes go through one goroutine: two blocked net.Pipe writers would contend on a mutex
}

func (r *simParkRemote) write(b []byte) {
	r.mu.Lock()
	if len(b) >= 19 && b[18] == bgp.BGP_MSG_NOTIFICATION {
		r.sentNotif = true
	}
	if r.q == nil {
		r.q = make(chan []byte, 16)
		q := r.q
		go func() {
			for b := range q {
				if _, err := r.conn.Write(b); err != nil {
					for range q {
					}
					return
				}
			}
		}()
	}
	q := r.q
	r.mu.Unlock()
	q <- b
}

func (r *simParkRemote) shut() {
	r.mu.Lock()
	if r.q != nil {
		close(r.q)
		r.q = nil
	}
	r.mu.Unlock()
	r.conn.Close()
}

func (r *simParkRemote) reader() {
	b := make([]byte, 4096)
	for {
		r.mu.Lock()
		st := r.stallCh
		r.mu.Unlock()
		if st != nil {
			<-st
		}
		n, err := r.conn.Read(b)
		r.mu.Lock()
		r.buf.Write(b[:n])
		if err != nil {
			r.eof = true
			r.mu.Unlock()
			return
		}
		r.mu.Unlock()
	}
}

// stall: the remote stops reading after the read it is currently blocked in; resume lets it read again.
func (r *simParkRemote) stall() {
	r.mu.Lock()
	r.stallCh = make(chan struct{})
	r.mu.Unlock()
}

func (r *simParkRemote) resume() {
	r.mu.Lock()
	if r.stallCh != nil {
		close(r.stallCh)
		r.stallCh = nil
	}
	r.mu.Unlock()
}

func (r *simParkRemote) closed() bool {
	r.mu.Lock()
	defer r.mu.Unlock()
	return r.eof
}

// messages splits what the daemon wrote into BGP message types (0xff: trailing garbage / partial message).
func (r *simParkRemote) messages() (types []uint8, notif [][2]uint8) {
	r.mu.Lock()
	b := append([]byte(nil), r.buf.Bytes()...)
	r.mu.Unlock()
	for len(b) > 0 {
		if len(b) < 19 {
			return append(types, 0xff), notif
		}
		l := int(binary.BigEndian.Uint16(b[16:18]))
		if l < 19 || l > len(b) {
			return append(types, 0xff), notif
		}
		types = append(types, b[18])
		if b[18] == bgp.BGP_MSG_NOTIFICATION && l >= 21 {
			notif = append(notif, [2]uint8{b[19], b[20]})
		}
		b = b[l:]
	}
	return types, notif
}

type simParkHandler struct {
	p     *simPark
	armed *bool
	mu    *sync.Mutex
	locks func() bool // true: a lock the perturbation may need is taken right now
	skip  *int
}

func (h simParkHandler) Enabled(context.Context, slog.Level) bool { return true }
func (h simParkHandler) WithAttrs([]slog.Attr) slog.Handler       { return h }
func (h simParkHandler) WithGroup(string) slog.Handler            { return h }
func (h simParkHandler) Handle(_ context.Context, r slog.Record) error {
	h.at("log:" + r.Message)
	return nil
}

// at is a park site: a log record, or an operation of the daemon on a connection the harness owns.
func (h simParkHandler) at(name string) {
	h.mu.Lock()
	armed := *h.armed
	h.mu.Unlock()
	if !armed {
		return
	}
	h.p.mu.Lock()
	next := h.p.n == h.p.want && !h.p.frozen
	h.p.mu.Unlock()
	if next && h.locks() {
		h.mu.Lock()
		*h.skip++
		h.mu.Unlock()
		h.p.mu.Lock()
		h.p.want = -2 // this occurrence cannot be held; the case degenerates to "nobody held"
		h.p.mu.Unlock()
	}
	h.p.site(name)
}


type simParkScriptResult struct {
	records  int
	reached  bool
	parkedAt string
	skipped  bool
	viol     []simViolation
	pn       string
	applied  int
	early    bool
}

// simParkScenario: a scenario whose oracle is a statement about the quiescent state (so that it must hold
// whatever order racing things took effect in) and whose bots fold what they received on demand.
type simParkScenario interface {
	simScenario
	foldNew(w *simWorld)
}

// simParkScript runs script on a fresh world; the goroutine that reaches park site number park is held while
// the next n events are applied, then released; the rest of the script follows; the scenario's oracle is
// evaluated at the quiescent end.
func simParkScript(t *testing.T, mk func() simParkScenario, script []simEvent, parkAt, n int) (res simParkScriptResult) {
	sc := mk()
	c := struct{ Park, N int }{parkAt, n}
	synctest.Test(t, func(t *testing.T) {
		park := &simPark{want: c.Park, reached: make(chan struct{}), release: make(chan struct{})}
		armed, skip := false, 0
		var hmu sync.Mutex
		w := &simWorld{t: t}
		gate := simParkHandler{p: park, armed: &armed, mu: &hmu, skip: &skip}
		gate.locks = func() bool {
			for _, p := range w.everPeer {
				if !p.fsm.lock.TryLock() {
					return true
				}
				p.fsm.lock.Unlock()
			}
			if !w.s.shared.mu.TryLock() {
				return true
			}
			w.s.shared.mu.Unlock()
			return false
		}
		w.logHandler = gate
		w.wrapConn = func(sc *simConn) net.Conn { return &simParkConn{simConn: sc, h: gate} }
		released := false
		defer func() {
			if r := recover(); r != nil {
				res.pn = fmt.Sprint(r)
			}
			if !released {
				park.freeze()
				released = true
				close(park.release)
			}
			func() {
				defer func() { recover() }()
				if w.s != nil {
					w.stop(true)
				}
			}()
		}()
		sc.Setup(w)
		hmu.Lock()
		armed = true
		hmu.Unlock()
		parked := func() bool {
			select {
			case <-park.reached:
				return true
			default:
				return false
			}
		}
		enabled := func(e simEvent) bool {
			for _, x := range sc.Enabled(w) {
				if x == e {
					return true
				}
			}
			return false
		}
		release := func() {
			if released {
				return
			}
			park.freeze()
			hmu.Lock()
			armed = false
			hmu.Unlock()
			released = true
			close(park.release)
		}
		botUp := map[int]bool{0: true, 1: true, 2: true}
		i := 0
		apply := func() {
			e := script[i]
			i++
			ok := enabled(e)
			// the bot's own idea of its session: an "up" whose handshake did not complete (the FSM goroutine is the
			// one being held) leaves the bot without a session, whatever state the daemon still reports
			if (e.Op == "ann" || e.Op == "wd" || e.Op == "down" || e.Op == "rr") && !botUp[e.Bot] {
				ok = false
			}
			if os.Getenv("VERIF_PARK_DEBUG") != "" {
				fmt.Fprintf(os.Stderr, "PARK t=%v event %v enabled=%v parked=%v stats=%v\n", w.now(), e, ok, parked(), w.stats)
			}
			if ok {
				failed := w.stats["up-did-not-establish"]
				// an event that goes through the management channel cannot complete while the server loop is the
				// goroutine being held: after 20 s of virtual time the held goroutine is released early
				applied := make(chan any, 1)
				go func() {
					defer func() { applied <- recover() }()
					sc.Apply(w, e)
				}()
				tm := time.NewTimer(20 * time.Second)
				select {
				case pn := <-applied:
					tm.Stop()
					if pn != nil {
						panic(pn)
					}
				case <-tm.C:
					release()
					res.early = true
					if pn := <-applied; pn != nil {
						panic(pn)
					}
				}
				res.applied++
				switch e.Op {
				case "down", "delpeer":
					botUp[e.Bot] = false
				case "up":
					botUp[e.Bot] = w.stats["up-did-not-establish"] == failed
					if !botUp[e.Bot] {
						w.bots[e.Bot].disconnect()
						w.settle()
					}
				}
			}
		}
		for i < len(script) && !parked() {
			apply()
		}
		res.reached = parked()
		for k := 0; res.reached && k < c.N && i < len(script); k++ {
			apply()
		}
		release()
		synctest.Wait()
		w.advance(2 * time.Second)
		sc.foldNew(w)
		for i < len(script) {
			apply()
		}
		w.advance(2 * time.Second)
		sc.foldNew(w)
		sc.Check(w, nil)
		res.viol = w.viol
		res.records = park.n
		res.parkedAt = park.parkedAt
		res.skipped = skip > 0
	})
	return res
}

